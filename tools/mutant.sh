#!/bin/bash
# tools/mutant.sh <patch.diff> <property...>
# Applies a seeded change to /repo, runs the quick checks named, prints what
# they report, and restores /repo (also when interrupted).
patch=$(readlink -f "$1"); shift
cd /verif || exit 2
# evidence and replay files of runs against changed trees do not belong in /verif
export CRDSIM_OUT=$(mktemp -d /tmp/crdsim-out-XXXX)
if [ -n "$(git -C /repo status --porcelain)" ]; then echo "/repo is not clean" >&2; exit 2; fi
restore() { git -C /repo checkout -q -- . ; git -C /repo clean -fdq; rm -rf "$CRDSIM_OUT"; }
trap restore EXIT INT TERM
git -C /repo apply "$patch" || { echo "patch does not apply" >&2; exit 3; }
for p in "$@"; do
  start=$(date +%s)
  VERIF_SEED=${VERIF_SEED:-1} ./bin/check "$p" ${TIER:-quick} > /tmp/mutant.$p.log 2>&1
  code=$?
  echo "== $p exit=$code ($(( $(date +%s) - start ))s)"
  grep -E "^VIOLATION|^KNOWN-FINDING|signature:|INCOMPLETE|FIDELITY|unsupported|crdsim: (C|type|go build)" /tmp/mutant.$p.log | cut -c1-260 | head -12
done
