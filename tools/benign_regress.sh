#!/bin/bash
# tools/benign_regress.sh: every check must stay silent on the benign changes.
cd /verif || exit 2
export CRDSIM_OUT=$(mktemp -d /tmp/crdsim-out-XXXX)
wt=$(mktemp -d /tmp/benign-XXXX)
git -C /repo worktree add --detach -q "$wt" HEAD || exit 2
trap 'git -C /repo worktree remove --force "$wt" 2>/dev/null; rm -rf "$wt" "$CRDSIM_OUT"' EXIT
bad=0
for d in benign/*.diff; do
  git -C "$wt" checkout -q -- . && git -C "$wt" clean -fdq
  git -C "$wt" apply "/verif/$d" || { echo "$d: PATCH DOES NOT APPLY"; bad=1; continue; }
  for p in C12 C09 C04 C14 C06 C08; do
    CRDSIM_REPO="$wt" ./bin/check $p quick > /tmp/benign.log 2>&1
    code=$?
    if [ $code -ne 0 ]; then bad=1; echo "$d $p: exit=$code"; grep "^VIOLATION\|signature\|INCOMPLETE\|unsupported\|TROUBLE" /tmp/benign.log | head -5 | cut -c1-300; else echo "$d $p: silent"; fi
  done
done
rm -f /tmp/benign.log
exit $bad
