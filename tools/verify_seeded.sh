#!/bin/bash
# tools/verify_seeded.sh <dir with patch.diff + demo.sh>
# Confirms, in a scratch worktree of /repo's HEAD: the patch applies, builds,
# passes the existing tests, the demo fails with it and passes without it.
d=$(readlink -f "$1")
export GOFLAGS=-mod=mod GOPROXY=off GOSUMDB=off GOTOOLCHAIN=local
wt=$(mktemp -d /tmp/vseed-XXXX)
log=$(mktemp /tmp/vseedlog-XXXX)
rc=0
git -C /repo worktree add --detach -q "$wt" HEAD || exit 2
cleanup() { git -C /repo worktree remove --force "$wt" 2>/dev/null; rm -rf "$wt" "$log" "$log".*; }
trap cleanup EXIT
cd "$wt"
mkdir -p "$wt/out/x" && cp -r "$d"/. "$wt/out/x/"
demo="$wt/out/x/demo.sh"
echo "--- demo on unchanged HEAD"
if [ -f "$demo" ]; then ( bash "$demo" >$log.out 2>&1 ); h=$?; echo "demo(HEAD) exit=$h"; [ $h -eq 0 ] || { echo "NOT CONFIRMED: the demo fails on the unchanged tree"; rc=5; }; else echo "no demo.sh"; rc=6; fi
git apply --exclude="out/*" "$d/patch.diff" || { echo "PATCH DOES NOT APPLY"; exit 3; }
go1.26.8 build ./... || { echo "BUILD FAILS"; exit 4; }
if go1.26.8 test -vet=off -count=1 ./... >$log.test 2>&1; then echo "tests pass with patch"; else echo "TESTS FAIL with patch"; grep -v "^ok\|no test files" $log.test | head; rc=7; fi
echo "--- demo with patch"
if [ -f "$demo" ]; then ( bash "$demo" >$log.out2 2>&1 ); q=$?; echo "demo(patched) exit=$q"; tail -3 $log.out2 | cut -c1-200; [ $q -ne 0 ] || { echo "NOT CONFIRMED: the demo passes with the patch"; rc=8; }; fi
[ $rc -eq 0 ] && echo "CONFIRMED"
exit $rc
