#!/bin/bash
# tools/verify_seeded.sh <dir with patch.diff + demo.sh>
# Confirms, in a scratch worktree of /repo's HEAD: the patch applies, builds,
# passes the existing tests, the demo fails with it and passes without it.
d=$(readlink -f "$1")
export GOFLAGS=-mod=mod GOPROXY=off GOSUMDB=off GOTOOLCHAIN=local
wt=$(mktemp -d /tmp/vseed-XXXX)
git -C /repo worktree add --detach -q "$wt" HEAD || exit 2
cleanup() { git -C /repo worktree remove --force "$wt" 2>/dev/null; rm -rf "$wt"; }
trap cleanup EXIT
cd "$wt"
mkdir -p "$wt/out/x" && cp -r "$d"/. "$wt/out/x/"
demo="$wt/out/x/demo.sh"
echo "--- demo on unchanged HEAD"
if [ -f "$demo" ]; then ( bash "$demo" >/tmp/vseed.out 2>&1 ); echo "demo(HEAD) exit=$?"; else echo "no demo.sh"; fi
git apply --exclude="out/*" "$d/patch.diff" || { echo "PATCH DOES NOT APPLY"; exit 3; }
go1.26.8 build ./... || { echo "BUILD FAILS"; exit 4; }
if go1.26.8 test -vet=off -count=1 ./... >/tmp/vseed.test 2>&1; then echo "tests pass with patch"; else echo "TESTS FAIL with patch"; grep -v "^ok\|no test files" /tmp/vseed.test | head; fi
echo "--- demo with patch"
if [ -f "$demo" ]; then ( bash "$demo" >/tmp/vseed.out2 2>&1 ); echo "demo(patched) exit=$?"; tail -3 /tmp/vseed.out2 | cut -c1-200; fi
