#!/usr/bin/env python3
# Regenerates the table of DESIGN.md section 14 from /verif/seeded/*/meta.json
import json,glob,re
rows=[]
for f in sorted(glob.glob('/verif/seeded/*/meta.json')):
    m=json.load(open(f))
    rows.append(f"| {m['id']} | {m['property']} | {m['change']} | {m['needs_to_manifest']} | {m['checks']} |")
table="| id | property | change | needs | result |\n|---|---|---|---|---|\n"+"\n".join(rows)
p='/verif/DESIGN.md'
s=open(p).read()
s=re.sub(r'<!-- SEEDED-TABLE-BEGIN -->.*<!-- SEEDED-TABLE-END -->','<!-- SEEDED-TABLE-BEGIN -->\n'+table.replace('\\','\\\\')+'\n<!-- SEEDED-TABLE-END -->',s,flags=re.S)
open(p,'w').write(s)
print(len(rows),'rows')
