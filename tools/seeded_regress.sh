#!/bin/bash
# tools/seeded_regress.sh [id-glob]
# Re-runs the quick check of every kept seeded change against a scratch
# worktree of /repo with the patch applied (CRDSIM_REPO), so /repo itself is
# never touched. Prints one line per change: caught / MISSED / exit 2.
# a snapshot of /verif runs the checks, so that work going on in /verif
# (edits, rebuilds of the driver) cannot disturb a long regression
snap=$(mktemp -d /tmp/verif-snap-XXXX)
rsync -a --exclude .git --exclude evidence --exclude 'bin/crdsim.new.*' /verif/ "$snap"/ || exit 2
cd "$snap" || exit 2
# evidence and replay files of runs against changed trees do not belong in /verif
export CRDSIM_OUT=$(mktemp -d /tmp/crdsim-out-XXXX)
pat=${1:-*}
wt=$(mktemp -d /tmp/regress-XXXX)
git -C /repo worktree add --detach -q "$wt" HEAD || exit 2
trap 'git -C /repo worktree remove --force "$wt" 2>/dev/null; rm -rf "$wt" "$snap" "$CRDSIM_OUT"' EXIT
for d in seeded/$pat/; do
  id=$(basename "$d")
  if python3 -c "import json,sys;sys.exit(0 if json.load(open('$d/meta.json')).get('retired') else 1)"; then echo "$id: retired"; continue; fi
  prop=$(python3 -c "import json;print(json.load(open('$d/meta.json'))['property'])")
  also=$(python3 -c "import json;print(' '.join(json.load(open('$d/meta.json')).get('also_check',[])))")
  git -C "$wt" checkout -q -- . && git -C "$wt" clean -fdq
  if ! git -C "$wt" apply "$snap/$d/patch.diff" 2>/dev/null; then echo "$id: PATCH DOES NOT APPLY"; continue; fi
  res=""; sigs=""
  for p in $prop $also; do
    CRDSIM_REPO="$wt" VERIF_SEED=${VERIF_SEED:-1} ./bin/check "$p" quick > /tmp/regress.$id.$p.log 2>&1
    code=$?
    n=$(grep -c '^VIOLATION' /tmp/regress.$id.$p.log)
    res="$res $p:exit=$code,viol=$n"
    # keep the first minimised case that convicted this change (the corpus)
    if [ $code -eq 1 ] && [ -n "$CORPUS" ]; then
      f=$(ls "$CRDSIM_OUT"/replays/$p-*.json 2>/dev/null | grep -v -- "-20000[0-9][0-9]-" | head -1) # a generated case, not a corpus case
      if [ -n "$f" ] && [ $(stat -c %s "$f") -le 262144 ] && [ ! -e "/verif/corpus/$p-$id.json" ]; then mkdir -p /verif/corpus && cp "$f" "/verif/corpus/$p-$id.json"; fi
    fi
    rm -rf "$CRDSIM_OUT"/replays
    [ -n "$SIG" ] && sigs="$sigs $(grep -E 'signature:|unsupported|crdsim: (type|go build)' /tmp/regress.$id.$p.log | sed 's/.*signature: *//' | cut -c1-160 | sort -u | head -6 | tr '\n' ';')"
  done
  case "$res" in
    *exit=1*) echo "$id: caught$res" ;;
    *exit=2*) echo "$id: EXIT2$res" ;;
    *) echo "$id: MISSED$res" ;;
  esac
  [ -n "$SIG" ] && echo "   $sigs"
  rm -f /tmp/regress.$id.*.log
done
rm -rf "$CRDSIM_OUT"
