import sys
pid, d, n = sys.argv[1], sys.argv[2], sys.argv[3]
import json
prop = None
for l in open('/verif/properties.jsonl'):
    q = json.loads(l)
    if q['id'] == pid:
        prop = f"{q['id']} — {q['title']}\n\nStatement: {q['statement']}\n\nQuantified over: {q['quantifier']['text']}\n"
extra = sys.argv[4] if len(sys.argv) > 4 else ''
print(f"""You are working in a scratch git worktree of the Go project berquerant/crd at {d} (a CLI that converts a small chord-notation text language to instances YAML and then to Standard MIDI files, plus music-theory lookups). Work ONLY inside {d}. Never read, list or touch /repo or /verif (and nothing under /root/.vp): your work must be independent of them.

Offline sandbox: before any go command run `export GOFLAGS=-mod=mod GOPROXY=off GOSUMDB=off GOTOOLCHAIN=local` and use the `go1.26.8` binary (e.g. `go1.26.8 build ./... && go1.26.8 test -vet=off -count=1 ./...`; build the CLI with `go1.26.8 build -o /tmp/<something> ./cmd`). Start from README.md and the top-level layout, then read the code you need.

Here is a semantic property the project is supposed to satisfy:

{prop}
Task: produce {n} different, independent changes to the crd source (non-test .go files or embedded data files; never test files) that each BREAK this property while (a) still compiling and (b) passing the entire existing test suite unchanged (`go1.26.8 test -vet=off -count=1 ./...`). Each change must be realistic — something that could plausibly slip in through a refactor, an optimisation, a new feature or a "cleanup" — and subtle: it must need something specific to manifest (a particular interleaving or iteration order, a fault or truncation at a particular point, a multi-step sequence, an unusual input or flag value, or two cooperating sites that each look fine alone), NOT something that ordinary use would expose at once. Do not weaken or special-case in an artificial way like `if input == "magic"`; prefer bugs that arise naturally from the code's structure. Make the {n} changes different in kind from each other (different files/mechanisms/clauses of the property). {extra}

For each change i = 1..{n} write into {d}/out/<i>/ :
  - patch.diff : `git diff` against HEAD (must apply with `git apply` on a clean checkout of HEAD),
  - a demonstration: demo.sh (bash; builds the CLI from the current tree into a temp file itself, runs it, exits 0 when the property holds and non-zero when it is violated) or demo_test.go with instructions; it must FAIL with the change applied and PASS on the unchanged HEAD,
  - notes.md : which clause of the property it breaks, what exactly is needed for it to manifest, and the exact commands you ran to confirm (test suite passes with the patch; demo fails with the patch and passes without it).
After producing each patch, restore the worktree (`git checkout -- . && git clean -fdq -e out`) so that the patches are independent of each other. Actually run everything you claim. Finish with a short summary listing the changes (one line each).""")
