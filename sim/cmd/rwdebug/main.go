package main

import (
	"fmt"
	"os"

	"verif/sim/rewrite"
)

func main() {
	env := append(os.Environ(), "GOFLAGS=-mod=mod", "GOPROXY=off", "GOSUMDB=off", "GOTOOLCHAIN=local")
	rep, err := rewrite.Instrument(os.Args[1], "/verif/sim/simrt", env)
	fmt.Println(err, rep.Counts, rep.Unsupported)
}
