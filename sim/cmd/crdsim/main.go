package main

import (
	"encoding/json"
	"fmt"
	"os"

	"verif/sim/harness"
	"verif/sim/simrt"
)

func main() {
	if len(os.Args) < 2 {
		fmt.Fprintln(os.Stderr, "usage: crdsim probe|check|replay ...")
		os.Exit(2)
	}
	switch os.Args[1] {
	case "probe":
		env, err := harness.Build("/repo", "/verif")
		if err != nil {
			fmt.Fprintln(os.Stderr, err)
			os.Exit(2)
		}
		defer env.Close()
		rb, _ := json.MarshalIndent(env.Report, "", " ")
		fmt.Println(string(rb))
		fmt.Println("build s:", env.BuildS)
		for _, pol := range []string{"sorted", "shuffle", "reverse"} {
			st := &harness.Step{Step: simrt.Step{Argv: []string{"info", "key", "conv", "--key", "E", "-c", "d"}, Seed: 7, MapPolicy: pol}}
			r, err := env.Exec(st)
			if err != nil {
				fmt.Fprintln(os.Stderr, err)
				os.Exit(2)
			}
			jb, _ := json.Marshal(r.Journal)
			fmt.Printf("exit=%d stdout=%q stderr=%q\n%s\n", r.Exit, r.Stdout, r.Stderr, jb)
		}
		st := &harness.Step{Step: simrt.Step{Argv: []string{"text", "conv", "syllable"}, Seed: 7, SchedPolicy: "random",
			Stdin: &simrt.Stream{Data: []byte("C[1] G_7/B[1,1/2]{txt=hi} Am[2]"), Plan: simrt.Plan{Chunks: []int{1, 0, 2}}}}}
		r, err := env.Exec(st)
		if err != nil {
			fmt.Fprintln(os.Stderr, err)
			os.Exit(2)
		}
		jb, _ := json.Marshal(r.Journal)
		fmt.Printf("exit=%d stdout=%q stderr=%q\n%s\n", r.Exit, r.Stdout, r.Stderr, jb)
	}
}
