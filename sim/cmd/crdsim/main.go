// crdsim: deterministic simulation driver for berquerant/crd.
//
//	crdsim check <property> <quick|thorough>
//	crdsim replay <file>
//	crdsim selftest [n]           determinism + fidelity self-tests
//	crdsim instrument-report      print what the instrumenter did to the tree
//
// exit 0: property held on everything explored (KNOWN-FINDING lines possible)
// exit 1: VIOLATION property=<id> replay=<path>
// exit 2: infrastructure trouble (build, simulator incomplete, ...)
package main

import (
	"encoding/json"
	"errors"
	"fmt"
	"io"
	"os"
	"path/filepath"
	"sort"
	"strconv"
	"time"

	"verif/sim/harness"
	"verif/sim/simrt"
)

func clip(b []byte) []byte {
	if len(b) > 600 {
		return b[:600]
	}
	return b
}

func env(k, d string) string {
	if v := os.Getenv(k); v != "" {
		return v
	}
	return d
}

func die(err error) {
	fmt.Fprintln(os.Stderr, "crdsim:", err)
	harness.CloseActive()
	os.Exit(2)
}

func propertyByID(id string, st *harness.Stats) harness.Property {
	switch id {
	case "C12":
		return harness.NewC12(st)
	case "C09":
		return harness.NewC09(st)
	case "C04":
		return harness.NewC04(st)
	case "C14":
		return harness.NewC14(st)
	case "C06":
		return harness.NewC06(st)
	case "C08":
		return harness.NewC08(st)
	}
	return nil
}

func main() {
	if os.Getenv("CRDSIM_GROWTH") != "" {
		harness.GrowthTrace = func(l string) { fmt.Fprintln(os.Stderr, "growth:", l) }
	}
	if len(os.Args) < 2 {
		fmt.Fprintln(os.Stderr, "usage: crdsim check <id> <quick|thorough> | replay <file> | selftest | instrument-report")
		os.Exit(2)
	}
	repo := env("CRDSIM_REPO", "/repo")
	verif := env("CRDSIM_VERIF", "/verif")
	switch os.Args[1] {
	case "check":
		if len(os.Args) < 4 {
			die(errors.New("usage: crdsim check <id> <quick|thorough>"))
		}
		os.Exit(check(repo, verif, os.Args[2], os.Args[3]))
	case "replay":
		if len(os.Args) < 3 {
			die(errors.New("usage: crdsim replay <file>"))
		}
		os.Exit(replay(repo, verif, os.Args[2]))
	case "selftest":
		n := 300
		if len(os.Args) > 2 {
			n, _ = strconv.Atoi(os.Args[2])
		}
		os.Exit(selftest(repo, verif, n))
	case "exec":
		// crdsim exec <args...>: one simulated process, stdin from real stdin
		e, err := harness.Build(repo, verif)
		if err != nil {
			die(err)
		}
		defer e.Close()
		in, _ := io.ReadAll(os.Stdin)
		st := &harness.Step{Step: simrt.Step{Argv: os.Args[2:], Seed: seedFromEnv(), Stdin: &simrt.Stream{Data: in}, MapPolicy: os.Getenv("MAP"), SchedPolicy: os.Getenv("SCHED")}}
		t0 := time.Now()
		r, err := e.Exec(st)
		if err != nil {
			die(err)
		}
		jb, _ := json.Marshal(r.Journal)
		fmt.Printf("exit=%d stage=%d budget=%d wall=%v\nstdout(%d)=%q\nstderr(%d)=%q\njournal=%s\n", r.Exit, r.Stage, r.Budget, time.Since(t0), len(r.Stdout), clip(r.Stdout), len(r.Stderr), clip(r.Stderr), jb)
	case "gen":
		// crdsim gen <id> <tier> <from> <to>: print generated cases (debugging)
		st := harness.NewStats()
		p := propertyByID(os.Args[2], st)
		e, err := harness.Build(repo, verif)
		if err != nil {
			die(err)
		}
		defer e.Close()
		if err := p.Prepare(e, os.Args[3], seedFromEnv()); err != nil {
			die(err)
		}
		from, _ := strconv.Atoi(os.Args[4])
		to, _ := strconv.Atoi(os.Args[5])
		for i := from; i < to && i < p.Runs(os.Args[3]); i++ {
			c := p.Generate(seedFromEnv(), i)
			b, _ := json.Marshal(c)
			fmt.Println(string(b))
		}
	case "instrument-report":
		e, err := harness.Build(repo, verif)
		if err != nil {
			die(err)
		}
		defer e.Close()
		b, _ := json.MarshalIndent(e.Report, "", " ")
		fmt.Println(string(b))
	default:
		die(fmt.Errorf("unknown subcommand %q", os.Args[1]))
	}
}

func seedFromEnv() uint64 {
	s := os.Getenv("VERIF_SEED")
	if s == "" {
		return 1
	}
	v, err := strconv.ParseUint(s, 10, 64)
	if err != nil {
		iv, err2 := strconv.ParseInt(s, 10, 64)
		if err2 != nil {
			die(fmt.Errorf("VERIF_SEED=%q is not an integer", s))
		}
		v = uint64(iv)
	}
	return v
}

func check(repo, verif, id, tier string) int {
	t0 := time.Now()
	if t := os.Getenv("VERIF_TIER"); t != "" && tier == "" {
		tier = t
	}
	if tier != "quick" && tier != "thorough" {
		die(fmt.Errorf("tier must be quick or thorough"))
	}
	seed := seedFromEnv()
	fmt.Printf("crdsim: property=%s tier=%s VERIF_SEED=%d\n", id, tier, seed)
	st := harness.NewStats()
	p := propertyByID(id, st)
	if p == nil {
		die(fmt.Errorf("unknown property %q", id))
	}
	e, err := harness.Build(repo, verif)
	if err != nil {
		die(err)
	}
	code := func() int {
		defer e.Close()
		fmt.Printf("crdsim: built instrumented and plain binaries in %.1fs (%d files, %d map sites, %d tick sites)\n",
			e.BuildS, e.Report.Files, len(e.Report.Sites), e.Report.Counts["tick"])
		for _, w := range e.Report.Warnings {
			fmt.Println("crdsim: instrumenter warning:", w)
		}
		fid, err := harness.FidelityGate(e, seed)
		if err != nil {
			die(err)
		}
		if err := p.Prepare(e, tier, seed); err != nil {
			die(err)
		}
		opt := harness.Options{Tier: tier, Seed: seed, VerifDir: verif, RepoDir: repo}
		if s := os.Getenv("CRDSIM_MAXRUNS"); s != "" {
			opt.MaxRuns, _ = strconv.Atoi(s)
		}
		rep, err := harness.RunCampaign(e, p, opt, st)
		if err != nil {
			var inf *harness.Infra
			if errors.As(err, &inf) {
				fmt.Println(inf.Msg)
			}
			die(err)
		}
		code := 0
		for _, k := range rep.Known {
			fmt.Printf("KNOWN-FINDING: property=%s %s [%s]\n", id, k.Finding.What, k.Finding.Signature)
			// a replay file for the listed finding, so that it can be re-executed
			if path, err := harness.WriteReplay(filepath.Join(env("CRDSIM_OUT", verif), "known_replays"), k.Case); err == nil {
				fmt.Printf("  replay of the known finding: %s\n", path)
			}
		}
		var replayPaths []string
		for _, v := range rep.Violations {
			path, err := harness.WriteReplay(env("CRDSIM_OUT", verif), v)
			if err != nil {
				die(err)
			}
			replayPaths = append(replayPaths, path)
			fmt.Printf("VIOLATION property=%s replay=%s\n", id, path)
			fmt.Printf("  signature: %s\n  detail: %s\n", v.Verdict.Signature, v.Verdict.Detail)
			code = 1
		}
		for _, inc := range rep.Incomplete {
			fmt.Println(inc)
		}
		if len(rep.Incomplete) > 0 && code == 0 {
			// nothing replayable to report, but the real runtime disagreed with the
			// simulator: the check cannot vouch for the property on this tree
			fmt.Println("crdsim: the real runtime showed behaviour the simulator did not reproduce; no verdict (exit 2)")
			code = 2
		}
		wall := time.Since(t0).Seconds()
		if err := writeEvidence(verif, p, e, st, tier, seed, wall, rep, fid, replayPaths); err != nil {
			die(err)
		}
		fmt.Printf("crdsim: %s %s: %d cases, %d simulated processes (+%d plain), %d distinct non-trivial, %d violation(s), %d known finding(s), %.1fs\n",
			id, tier, st.Cases, st.Procs, st.PlainProcs, len(st.Distinct), len(rep.Violations), len(rep.Known), wall)
		return code
	}()
	return code
}

func writeEvidence(verif string, p harness.Property, e *harness.Env, st *harness.Stats, tier string, seed uint64, wall float64, rep *harness.Report, fid *harness.FidelityResult, replays []string) error {
	mapSites := map[string]int{}
	for id, m := range st.MapSigs {
		mapSites[id] = len(m)
	}
	var known []string
	for _, k := range rep.Known {
		known = append(known, k.Finding.Signature)
	}
	sort.Strings(known)
	procs := st.Procs
	perHour := 0.0
	if wall > 0 {
		perHour = float64(procs) / wall * 3600
	}
	budgetRatio := 0.0
	if e.TicksMax > 0 {
		budgetRatio = float64(harness.BudgetFor(&harness.Step{})) / float64(e.TicksMax)
	}
	cov := map[string]any{
		"evaluations":                   procs + st.PlainProcs,
		"distinct_nontrivial":           len(st.Distinct),
		"rule":                          p.Rule(),
		"samples":                       st.Samples,
		"cases":                         st.Cases,
		"simulated_processes":           procs,
		"plain_processes":               st.PlainProcs,
		"trivial_processes":             st.Trivial,
		"processes_per_hour":            int64(perHour),
		"seeds":                         []uint64{seed},
		"simulated_time_seconds":        map[string]any{"total": float64(e.SimUsSum) / 1e6, "of_which_clock_jumps_over_blocked_tasks": float64(e.JumpUsSum) / 1e6, "unit": "1 tick of the logical clock = 1 simulated microsecond; waiting (slow sources, timers) advances the clock by jumps"},
		"simulated_time_ticks":          map[string]any{"total": e.TicksSum, "max_per_process": e.TicksMax, "min_hang_budget_over_max": budgetRatio, "needed_stage2": st.Stage2},
		"faults_fired":                  st.FaultFired,
		"faults_configured":             st.FaultConf,
		"map_order_signatures_per_site": mapSites,
		"distinct_schedules":            len(st.SchedSigs),
		"distinct_delivery_signatures":  len(st.PlanSigs),
		"commands":                      st.CmdCount,
		"outcomes":                      st.ExitKinds,
		"probes":                        st.Probes,
		"instrumenter":                  map[string]any{"counts": e.Report.Counts, "map_sites": e.Report.Sites, "warnings": e.Report.Warnings},
		"fidelity_gate":                 fid,
		"terminal_variants_without_pty": e.NoPTY,
		"components": map[string]any{
			"real":          []string{"all crd packages (instrumented: same statements plus seam calls)", "ybase lexer base", "yaml.v3", "cobra/pflag", "gomidi smf writer/reader", "Go runtime", "real fd 1/2 and real exit status"},
			"stub":          []string{"stdin and file opens/creates (simulated streams, virtual file map)", "goroutine hand-over, channels, mutexes (simulated primitives with Go semantics, baton scheduler)", "map iteration order (seeded permutation of the real map's keys)", "RLIMIT_AS as the allocator limit",
				"time: clock, Sleep, timers, tickers, context deadlines (discrete-event clock: 1 tick = 1 us of computing, jumps over blocked tasks)",
				"os.Stdout / os.Stderr where crd names them (pass-through to the real descriptors with write faults and delays; implicit writers such as goyacc's trace and cobra's usage stay on the real descriptors)",
				"sync.Map, sync.Pool, errgroup (seeded choices instead of the runtime's)"},
			"not_exercised": []string{"crd write play, crd midi port (real-time playback)"},
		},
		"known_findings_matched": known,
		"replays":                replays,
	}
	for k, v := range p.Extra() {
		cov[k] = v
	}
	ev := map[string]any{
		"property_id": p.ID(),
		"tier":        tier,
		"seed":        seed,
		"level":       p.Level(),
		"coverage":    cov,
		"assumptions": p.Assumptions(),
		"wall_s":      wall,
		"violations":  len(rep.Violations),
	}
	b, err := json.MarshalIndent(ev, "", " ")
	if err != nil {
		return err
	}
	dir := filepath.Join(env("CRDSIM_OUT", verif), "evidence")
	if err := os.MkdirAll(dir, 0o755); err != nil {
		return err
	}
	return os.WriteFile(filepath.Join(dir, p.ID()+".json"), b, 0o644)
}

func replay(repo, verif, file string) int {
	b, err := os.ReadFile(file)
	if err != nil {
		die(err)
	}
	var c harness.Case
	if err := json.Unmarshal(b, &c); err != nil {
		die(err)
	}
	st := harness.NewStats()
	p := propertyByID(c.Property, st)
	if p == nil {
		die(fmt.Errorf("unknown property %q in replay file", c.Property))
	}
	e, err := harness.Build(repo, verif)
	if err != nil {
		die(err)
	}
	defer e.Close()
	if err := p.Prepare(e, "replay", c.Seed); err != nil {
		die(err)
	}
	out, err := p.Evaluate(e, &c)
	if err != nil {
		die(err)
	}
	if os.Getenv("CRDSIM_DUMP") != "" {
		for i, r := range out.Results {
			if r == nil {
				continue
			}
			fmt.Printf("step %d %s %v: exit=%d stdout=%q stderr=%q\n", i, c.Steps[i].Note, c.Steps[i].Argv, r.Exit, clip(r.Stdout)[:min(len(r.Stdout), 80)], clip(r.Stderr)[:min(len(r.Stderr), 200)])
		}
	}
	want := ""
	if c.Verdict != nil {
		want = c.Verdict.Signature
	}
	for _, f := range out.Findings {
		if want == "" || f.Signature == want {
			fmt.Printf("VIOLATION property=%s replay=%s\n  signature: %s\n  detail: %s\n", c.Property, file, f.Signature, f.Detail)
			e.Close()
			return 1
		}
	}
	fmt.Printf("not reproduced: %s (%d other finding(s))\n", want, len(out.Findings))
	for _, f := range out.Findings {
		fmt.Printf("  other: %s\n", f.Signature)
	}
	return 0
}

// selftest: determinism (same scenario => same observable and same journal,
// across repetitions, GOMAXPROCS 1/4/16 and whatever else runs on the host)
// and fidelity.
func selftest(repo, verif string, n int) int {
	e, err := harness.Build(repo, verif)
	if err != nil {
		die(err)
	}
	defer e.Close()
	seed := seedFromEnv()
	if _, err := harness.FidelityGate(e, seed); err != nil {
		die(err)
	}
	bad, total, err := harness.DeterminismSelfTest(e, seed, n)
	if err != nil {
		die(err)
	}
	fmt.Printf("selftest: %d scenarios x 6 executions, %d disagreements; bytes-allocated counter (processes allocating more than 8 MiB, same GOMAXPROCS) differs by at most %.2f%% between two executions of one scenario\n", total, bad, 100*harness.AllocSpread)
	if bad > 0 {
		e.Close()
		return 2
	}
	return 0
}
