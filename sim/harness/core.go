// Package harness is the driver half of the simulator: it builds the
// instrumented and the plain binary from /repo's working tree, executes
// scenarios (one simulated crd process per step), and provides the pool,
// shrinking, replay and evidence plumbing shared by all property campaigns.
package harness

import (
	"bytes"
	"context"
	"encoding/json"
	"errors"
	"fmt"
	"io"
	"os"
	"os/exec"
	"os/signal"
	"path/filepath"
	"runtime"
	"strconv"
	"strings"
	"sync"
	"syscall"
	"time"

	"verif/sim/rewrite"
	"verif/sim/simrt"
)

const GoCmd = "go1.26.8"

func GoEnv() []string {
	env := []string{}
	for _, kv := range os.Environ() {
		k := strings.SplitN(kv, "=", 2)[0]
		switch k {
		case "GOFLAGS", "GOPROXY", "GOSUMDB", "GOTOOLCHAIN", "CRDSIM_STEP", "GOMAXPROCS":
			continue
		}
		env = append(env, kv)
	}
	return append(env, "GOFLAGS=-mod=mod", "GOPROXY=off", "GOSUMDB=off", "GOTOOLCHAIN=local", "CGO_ENABLED=0")
}

// Infra is an error that must end the check with exit 2, never a VIOLATION.
type Infra struct{ Msg string }

func (e *Infra) Error() string { return e.Msg }

func Infraf(format string, a ...any) error { return &Infra{Msg: fmt.Sprintf(format, a...)} }

// Env is one built simulator: scratch dir, binaries, instrumenter report.
type Env struct {
	Scratch  string
	SimBin   string
	PlainBin string
	Report   *rewrite.Report
	RepoDir  string
	VerifDir string
	BuildS   float64
	// GoyaccRegen: "identical", "differs: ..." or "unavailable: ..." — result
	// of regenerating input/ast/chords_goyacc_generated.go from chords.y.
	GoyaccRegen string

	mu      sync.Mutex
	workers chan *worker
	nwork   int

	Execs     int64 // simulated processes executed
	PlainExec int64
	NoPTY     int64 // terminal variants that had to run on a pipe (no pseudo terminal available)
	TicksSum  int64
	SimUsSum  int64 // simulated microseconds (ticks + clock jumps)
	JumpUsSum int64
	TicksMax  int64
}

type worker struct {
	id  int
	dir string
}

var cleanupOnce sync.Once

// Build copies repoDir's working tree to a scratch directory outside /repo
// and /verif, instruments one copy, and builds both binaries.
func Build(repoDir, verifDir string) (*Env, error) {
	t0 := time.Now()
	base := os.Getenv("CRDSIM_SCRATCH_BASE")
	if base == "" {
		base = os.TempDir()
	}
	scratch, err := os.MkdirTemp(base, "crdsim-")
	if err != nil {
		return nil, Infraf("mktemp: %v", err)
	}
	env := &Env{Scratch: scratch, RepoDir: repoDir, VerifDir: verifDir}
	// remove the scratch dir on signals too
	sigc := make(chan os.Signal, 1)
	signal.Notify(sigc, syscall.SIGINT, syscall.SIGTERM, syscall.SIGHUP)
	go func() {
		<-sigc
		os.RemoveAll(scratch)
		os.Exit(2)
	}()

	plainSrc := filepath.Join(scratch, "plain")
	simSrc := filepath.Join(scratch, "sim")
	for _, d := range []string{plainSrc, simSrc} {
		if err := copyTree(repoDir, d); err != nil {
			env.Close()
			return nil, Infraf("copy tree: %v", err)
		}
	}
	rep, err := rewrite.Instrument(simSrc, filepath.Join(verifDir, "sim", "simrt"), GoEnv())
	if err != nil {
		env.Close()
		return nil, Infraf("%v", err)
	}
	env.Report = rep
	env.SimBin = filepath.Join(scratch, "crd.sim")
	env.PlainBin = filepath.Join(scratch, "crd.plain")
	var wg sync.WaitGroup
	errs := make([]error, 2)
	for i, job := range []struct{ src, out string }{{simSrc, env.SimBin}, {plainSrc, env.PlainBin}} {
		wg.Add(1)
		go func() {
			defer wg.Done()
			cmd := exec.Command(GoCmd, "build", "-o", job.out, "./cmd")
			cmd.Dir = job.src
			cmd.Env = GoEnv()
			out, err := cmd.CombinedOutput()
			if err != nil {
				errs[i] = Infraf("go build in %s: %v\n%s", job.src, err, out)
			}
		}()
	}
	wg.Wait()
	for _, e := range errs {
		if e != nil {
			if os.Getenv("CRDSIM_KEEP") == "" {
				env.Close()
			}
			return nil, e
		}
	}
	env.GoyaccRegen = regenParser(plainSrc, scratch)
	// sources are no longer needed
	if os.Getenv("CRDSIM_KEEP") == "" {
		os.RemoveAll(plainSrc)
		os.RemoveAll(simSrc)
	}
	env.nwork = runtime.NumCPU()
	if s := os.Getenv("CRDSIM_WORKERS"); s != "" {
		fmt.Sscanf(s, "%d", &env.nwork)
	}
	if env.nwork < 1 {
		env.nwork = 1
	}
	env.workers = make(chan *worker, env.nwork)
	for i := 0; i < env.nwork; i++ {
		d := filepath.Join(scratch, fmt.Sprintf("w%d", i))
		if err := os.MkdirAll(d, 0o755); err != nil {
			env.Close()
			return nil, Infraf("mkdir: %v", err)
		}
		env.workers <- &worker{id: i, dir: d}
	}
	env.BuildS = time.Since(t0).Seconds()
	ActiveEnv = env
	return env, nil
}

func (e *Env) Close() {
	if os.Getenv("CRDSIM_KEEP") != "" {
		fmt.Fprintln(os.Stderr, "keeping scratch", e.Scratch)
		return
	}
	os.RemoveAll(e.Scratch)
}

func (e *Env) Workers() int { return e.nwork }

func copyTree(src, dst string) error {
	return filepath.Walk(src, func(p string, info os.FileInfo, err error) error {
		if err != nil {
			return err
		}
		rel, _ := filepath.Rel(src, p)
		if rel == ".git" || strings.HasPrefix(rel, ".git"+string(filepath.Separator)) {
			if info.IsDir() {
				return filepath.SkipDir
			}
			return nil
		}
		target := filepath.Join(dst, rel)
		if info.IsDir() {
			return os.MkdirAll(target, 0o755)
		}
		if !info.Mode().IsRegular() {
			return nil
		}
		in, err := os.Open(p)
		if err != nil {
			return err
		}
		defer in.Close()
		out, err := os.OpenFile(target, os.O_CREATE|os.O_WRONLY|os.O_TRUNC, info.Mode().Perm()|0o200)
		if err != nil {
			return err
		}
		if _, err := io.Copy(out, in); err != nil {
			out.Close()
			return err
		}
		return out.Close()
	})
}

// ---------------------------------------------------------------------------
// executing one simulated process

// Step is one process of a scenario.
type Step struct {
	simrt.Step
	// StdinFrom: take stdin bytes from the stdout of an earlier step (index),
	// keeping this step's delivery plan. nil: use Step.Stdin as is.
	StdinFrom *int `json:"stdin_from,omitempty"`
	// CarryFrom: the files an earlier step created still exist when this step
	// starts (durable state between two runs: caches, outputs).
	CarryFrom *int `json:"carry_from,omitempty"`
	// GoMaxProcs sets GOMAXPROCS of the worker process (0: host default).
	GoMaxProcs int `json:"gomaxprocs,omitempty"`
	// Plain: run the uninstrumented binary with real stdin and real files
	// (schedule, map order and delivery are whatever the host gives).
	Plain bool   `json:"plain,omitempty"`
	// StdoutTTY: standard output is a (pseudo) terminal instead of a pipe
	StdoutTTY bool `json:"stdout_tty,omitempty"`
	Note  string `json:"note,omitempty"`
}

type Result struct {
	Exit     int               `json:"exit"`
	Signal   string            `json:"signal,omitempty"`
	Stdout   []byte            `json:"stdout"`
	Stderr   []byte            `json:"stderr"`
	Journal  *simrt.Journal    `json:"journal,omitempty"`
	Created  map[string][]byte `json:"created,omitempty"`
	TimedOut bool              `json:"timed_out,omitempty"`
	WallMs   float64           `json:"wall_ms"`
	Budget   int64             `json:"budget"`
	Stage    int               `json:"stage"` // 1: finished under B1, 2: needed B2
}

const (
	outCap       = 16 << 20
	AddrLimit    = 10 << 30
	wallBackstop = 300 * time.Second
)

// BudgetFor is the logical-clock budget of a step (DESIGN 3.3): far above
// what a terminating run of that size needs. Measured costs: about 10 ticks
// per input byte for text and YAML commands; `write --track N` costs
// (events x N) + N^2 ticks (every event is pushed to every track, closing
// pushes N events); `gen attr -d N` about N^2/2.
func BudgetFor(s *Step) int64 {
	n := 0
	tracks, maxdeg := int64(1), int64(0)
	for i, a := range s.Argv {
		n += len(a)
		if i+1 < len(s.Argv) {
			if a == "--track" {
				if v, err := strconv.ParseInt(s.Argv[i+1], 10, 64); err == nil && v > 1 && v <= 200000 {
					tracks = v
				}
			}
			if a == "-d" || a == "--maxDegree" {
				if v, err := strconv.ParseInt(s.Argv[i+1], 10, 64); err == nil && v > 1 && v <= 20000 {
					maxdeg = v
				}
			}
		}
	}
	if s.Stdin != nil {
		n += len(s.Stdin.Data)
	}
	for _, f := range s.Files {
		n += len(f.Data)
	}
	return 20_000_000 + 100*int64(n) + 2*tracks*int64(n) + 3*tracks*tracks + 5*maxdeg*maxdeg
}

// Stage 1 runs with a tenth of the budget; only a run that exhausts it is
// re-executed with the full budget (so a hang costs 1.1 budgets and the
// evidence can report how many terminating runs needed stage 2).
const Stage1Divisor = 10

type capWriter struct {
	buf  bytes.Buffer
	cap  int
	over bool
}

func (w *capWriter) Write(p []byte) (int, error) {
	room := w.cap - w.buf.Len()
	if room <= 0 {
		w.over = true
		return len(p), nil
	}
	if len(p) > room {
		w.buf.Write(p[:room])
		w.over = true
		return len(p), nil
	}
	return w.buf.Write(p)
}

// Exec runs one step (two-stage budget) and returns what was observed.
func (e *Env) Exec(st *Step) (*Result, error) {
	w := <-e.workers
	defer func() { e.workers <- w }()
	if st.Plain {
		return e.execPlain(w, st)
	}
	full := st.StepBudget
	if full == 0 {
		full = BudgetFor(st)
	}
	b1 := full / Stage1Divisor
	r, err := e.execSim(w, st, b1)
	if err != nil {
		return nil, err
	}
	r.Stage = 1
	if r.Journal != nil && r.Journal.Verdict == "step-budget" {
		r2, err := e.execSim(w, st, full)
		if err != nil {
			return nil, err
		}
		r2.Stage = 2
		return r2, nil
	}
	return r, nil
}

func (e *Env) execSim(w *worker, st *Step, budget int64) (*Result, error) {
	run := st.Step
	run.StepBudget = budget
	run.OutDir = filepath.Join(w.dir, "out")
	run.JournalPath = filepath.Join(w.dir, "journal.json")
	if run.AddrLimit == 0 {
		run.AddrLimit = AddrLimit
	}
	os.RemoveAll(run.OutDir)
	if err := os.MkdirAll(run.OutDir, 0o755); err != nil {
		return nil, Infraf("mkdir: %v", err)
	}
	os.Remove(run.JournalPath)
	stepPath := filepath.Join(w.dir, "step.json")
	b, err := json.Marshal(&run)
	if err != nil {
		return nil, Infraf("marshal step: %v", err)
	}
	if err := os.WriteFile(stepPath, b, 0o644); err != nil {
		return nil, Infraf("write step: %v", err)
	}
	ctx, cancel := context.WithTimeout(context.Background(), wallBackstop)
	defer cancel()
	cmd := exec.CommandContext(ctx, e.SimBin, st.Argv...)
	cmd.Dir = run.OutDir
	cmd.Env = []string{"CRDSIM_STEP=" + stepPath, "HOME=" + w.dir, "PATH=/usr/bin:/bin", "GOTRACEBACK=single"}
	if st.GoMaxProcs > 0 {
		cmd.Env = append(cmd.Env, fmt.Sprintf("GOMAXPROCS=%d", st.GoMaxProcs))
	}
	so := &capWriter{cap: outCap}
	se := &capWriter{cap: outCap}
	cmd.Stdout = so
	cmd.Stderr = se
	cmd.Stdin = nil
	var ptyDone chan struct{}
	var ptyMaster, ptySlave *os.File
	if st.StdoutTTY {
		// standard output is a terminal: a real pseudo terminal, so that
		// isatty-style questions about descriptor 1 get the terminal's answer
		if m, sl, err := openPTY(); err == nil {
			ptyMaster, ptySlave = m, sl
			cmd.Stdout = sl
			ptyDone = make(chan struct{})
			go func() {
				defer close(ptyDone)
				buf := make([]byte, 32<<10)
				for {
					n, err := m.Read(buf)
					if n > 0 {
						so.Write(buf[:n])
					}
					if err != nil {
						return
					}
				}
			}()
		} else {
			e.mu.Lock()
			e.NoPTY++
			e.mu.Unlock()
		}
	}
	t0 := time.Now()
	runErr := cmd.Run()
	if ptySlave != nil {
		ptySlave.Close()
		<-ptyDone
		ptyMaster.Close()
	}
	res := &Result{Stdout: so.buf.Bytes(), Stderr: se.buf.Bytes(), WallMs: float64(time.Since(t0).Microseconds()) / 1000, Budget: budget}
	if ctx.Err() != nil {
		res.TimedOut = true
	}
	if err := fillExit(res, cmd, runErr); err != nil {
		return nil, err
	}
	if res.Exit == simrt.ExitSimTrouble && bytes.Contains(res.Stderr, []byte("SIMRT-TROUBLE")) {
		return nil, Infraf("simrt trouble: %s", res.Stderr)
	}
	if jb, err := os.ReadFile(run.JournalPath); err == nil {
		var j simrt.Journal
		if err := json.Unmarshal(jb, &j); err != nil {
			return nil, Infraf("journal parse: %v", err)
		}
		res.Journal = &j
		for _, c := range j.Created {
			if c.Removed {
				continue
			}
			cb, err := os.ReadFile(c.Real)
			if err != nil {
				return nil, Infraf("created file: %v", err)
			}
			if res.Created == nil {
				res.Created = map[string][]byte{}
			}
			res.Created[c.Virtual] = cb
		}
		e.mu.Lock()
		e.TicksSum += j.Ticks
		e.SimUsSum += j.SimTimeUs
		e.JumpUsSum += j.JumpedUs
		if j.Ticks > e.TicksMax {
			e.TicksMax = j.Ticks
		}
		e.mu.Unlock()
	}
	e.mu.Lock()
	e.Execs++
	e.mu.Unlock()
	return res, nil
}

func fillExit(res *Result, cmd *exec.Cmd, runErr error) error {
	if runErr == nil {
		res.Exit = 0
		return nil
	}
	var ee *exec.ExitError
	if errors.As(runErr, &ee) {
		ws, _ := ee.Sys().(syscall.WaitStatus)
		if ws.Signaled() {
			res.Signal = ws.Signal().String()
			res.Exit = -1
		} else {
			res.Exit = ee.ExitCode()
		}
		return nil
	}
	return Infraf("cannot start worker: %v", runErr)
}

// execPlain runs the uninstrumented binary: real stdin (a pipe fed in one
// piece), virtual /sim/ paths materialised under the worker directory.
func (e *Env) execPlain(w *worker, st *Step) (*Result, error) {
	root := filepath.Join(w.dir, "vfs")
	os.RemoveAll(root)
	if err := os.MkdirAll(root, 0o755); err != nil {
		return nil, Infraf("mkdir: %v", err)
	}
	mapPath := func(p string) string { return filepath.Join(root, filepath.Clean("/"+p)) }
	for name, f := range st.Files {
		if f.OpenErr != "" || f.CreateErr != "" {
			continue
		}
		rp := mapPath(name)
		os.MkdirAll(filepath.Dir(rp), 0o755)
		if err := os.WriteFile(rp, f.Data, 0o644); err != nil {
			return nil, Infraf("materialise: %v", err)
		}
	}
	os.MkdirAll(filepath.Join(root, "sim"), 0o755)
	argv := make([]string, len(st.Argv))
	var outPaths []string
	for i, a := range st.Argv {
		switch {
		case strings.HasPrefix(a, "/sim/"):
			argv[i] = mapPath(a)
			if i > 0 && (st.Argv[i-1] == "-o" || st.Argv[i-1] == "--output") {
				outPaths = append(outPaths, a)
			}
		case strings.HasPrefix(a, "--output=/sim/"):
			argv[i] = "--output=" + mapPath(strings.TrimPrefix(a, "--output="))
			outPaths = append(outPaths, strings.TrimPrefix(a, "--output="))
		default:
			argv[i] = a
		}
	}
	ctx, cancel := context.WithTimeout(context.Background(), wallBackstop)
	defer cancel()
	cmd := exec.CommandContext(ctx, e.PlainBin, argv...)
	cmd.Dir = root
	cmd.Env = []string{"HOME=" + w.dir, "PATH=/usr/bin:/bin", "GOTRACEBACK=single"}
	so := &capWriter{cap: outCap}
	se := &capWriter{cap: outCap}
	cmd.Stdout = so
	cmd.Stderr = se
	if st.Stdin != nil {
		cmd.Stdin = bytes.NewReader(st.Stdin.Data)
	}
	t0 := time.Now()
	runErr := cmd.Run()
	res := &Result{Stdout: so.buf.Bytes(), Stderr: se.buf.Bytes(), WallMs: float64(time.Since(t0).Microseconds()) / 1000}
	if ctx.Err() != nil {
		res.TimedOut = true
	}
	if err := fillExit(res, cmd, runErr); err != nil {
		return nil, err
	}
	for _, op := range outPaths {
		if b, err := os.ReadFile(mapPath(op)); err == nil {
			if res.Created == nil {
				res.Created = map[string][]byte{}
			}
			res.Created[op] = b
		}
	}
	e.mu.Lock()
	e.PlainExec++
	e.mu.Unlock()
	return res, nil
}

// ---------------------------------------------------------------------------
// classification of an observed process

// Crash reports a panic, runtime fatal error or signal.
func (r *Result) Crash() string {
	if r.Signal != "" {
		return "signal:" + r.Signal
	}
	if r.Exit == 2 || r.Exit == -1 {
		if bytes.Contains(r.Stderr, []byte("panic: ")) || bytes.Contains(r.Stderr, []byte("[recovered]")) {
			return "panic"
		}
		if bytes.Contains(r.Stderr, []byte("fatal error: ")) {
			if bytes.Contains(r.Stderr, []byte("stack overflow")) {
				return "fatal:stack-overflow"
			}
			if bytes.Contains(r.Stderr, []byte("out of memory")) || bytes.Contains(r.Stderr, []byte("cannot allocate memory")) {
				return "fatal:out-of-memory"
			}
			if bytes.Contains(r.Stderr, []byte("all goroutines are asleep")) {
				return "fatal:deadlock"
			}
			return "fatal"
		}
	}
	return ""
}

// Hang reports a non-termination verdict of the logical clock.
func (r *Result) Hang() string {
	if r.Journal != nil {
		switch r.Journal.Verdict {
		case "step-budget", "eof-spin", "deadlock":
			return r.Journal.Verdict
		}
	}
	if r.TimedOut {
		return "wallclock"
	}
	return ""
}

// OK: the command succeeded.
func (r *Result) OK() bool { return r.Exit == 0 && r.Signal == "" && r.Hang() == "" }

func first(b []byte, n int) string {
	if len(b) <= n {
		return string(b)
	}
	return string(b[:n]) + fmt.Sprintf("...(+%d bytes)", len(b)-n)
}

// ActiveEnv is closed by CloseActive (used on fatal exits).
var ActiveEnv *Env

func CloseActive() {
	if ActiveEnv != nil {
		ActiveEnv.Close()
	}
}

// regenParser runs the repository's own generator (go tool goyacc, resolved
// through go.mod's tool directive from the module cache) on chords.y in a
// separate directory and compares the result with the committed parser.
func regenParser(src, scratch string) string {
	dir := filepath.Join(scratch, "regen")
	astDir := filepath.Join(dir, "input", "ast")
	if err := os.MkdirAll(astDir, 0o755); err != nil {
		return "unavailable: " + err.Error()
	}
	defer os.RemoveAll(dir)
	for _, f := range []string{"go.mod", "go.sum", "input/ast/chords.y"} {
		b, err := os.ReadFile(filepath.Join(src, f))
		if err != nil {
			return "unavailable: " + err.Error()
		}
		if err := os.WriteFile(filepath.Join(dir, f), b, 0o644); err != nil {
			return "unavailable: " + err.Error()
		}
	}
	want, err := os.ReadFile(filepath.Join(src, "input/ast/chords_goyacc_generated.go"))
	if err != nil {
		return "unavailable: " + err.Error()
	}
	cmd := exec.Command(GoCmd, "tool", "goyacc", "-o", "chords_goyacc_generated.go", "-v", "chords_goyacc_generated.output", "chords.y")
	cmd.Dir = astDir
	cmd.Env = GoEnv()
	if out, err := cmd.CombinedOutput(); err != nil {
		return "unavailable: goyacc: " + err.Error() + ": " + first(out, 300)
	}
	got, err := os.ReadFile(filepath.Join(astDir, "chords_goyacc_generated.go"))
	if err != nil {
		return "unavailable: " + err.Error()
	}
	if bytes.Equal(got, want) {
		return "identical"
	}
	gl, wl := strings.Split(string(got), "\n"), strings.Split(string(want), "\n")
	for i := 0; i < len(gl) || i < len(wl); i++ {
		var g, w string
		if i < len(gl) {
			g = gl[i]
		}
		if i < len(wl) {
			w = wl[i]
		}
		if g != w {
			return fmt.Sprintf("differs: line %d: goyacc generates %q, the tree has %q", i+1, first([]byte(g), 120), first([]byte(w), 120))
		}
	}
	return "differs"
}
