package harness

import (
	"fmt"
	"os"
	"syscall"
	"unsafe"
)

// openPTY allocates a pseudo terminal (Linux). The slave side is put into a
// mode without output post-processing, so the bytes a process writes to its
// terminal arrive unchanged at the master.
func openPTY() (master, slave *os.File, err error) {
	m, err := os.OpenFile("/dev/ptmx", os.O_RDWR|syscall.O_NOCTTY, 0)
	if err != nil {
		return nil, nil, err
	}
	var unlock int32
	if _, _, e := syscall.Syscall(syscall.SYS_IOCTL, m.Fd(), syscall.TIOCSPTLCK, uintptr(unsafe.Pointer(&unlock))); e != 0 {
		m.Close()
		return nil, nil, e
	}
	var n uint32
	if _, _, e := syscall.Syscall(syscall.SYS_IOCTL, m.Fd(), syscall.TIOCGPTN, uintptr(unsafe.Pointer(&n))); e != 0 {
		m.Close()
		return nil, nil, e
	}
	s, err := os.OpenFile(fmt.Sprintf("/dev/pts/%d", n), os.O_RDWR|syscall.O_NOCTTY, 0)
	if err != nil {
		m.Close()
		return nil, nil, err
	}
	var t syscall.Termios
	if _, _, e := syscall.Syscall(syscall.SYS_IOCTL, s.Fd(), syscall.TCGETS, uintptr(unsafe.Pointer(&t))); e == 0 {
		t.Oflag &^= syscall.OPOST
		t.Lflag &^= syscall.ECHO
		syscall.Syscall(syscall.SYS_IOCTL, s.Fd(), syscall.TCSETS, uintptr(unsafe.Pointer(&t)))
	}
	return m, s, nil
}
