package harness

import (
	"bytes"
	"encoding/json"
	"fmt"
	"regexp"
	"sort"
	"strings"
	"sync"

	"verif/sim/model"
)

type FidelityResult struct {
	Scenarios             int `json:"scenarios"`
	Exact                 int `json:"exact"`
	AsLineSet             int `json:"equal_as_line_multiset"`
	OrderDependent        int `json:"plain_result_reached_under_another_seeded_order"`
	EnvironmentDependent  int `json:"environment_dependent"`
	PlainNondeterministic int `json:"plain_binary_disagrees_with_itself"`
}

// reachable: some seeded map order / schedule makes the instrumented binary
// print what the plain binary printed.
func reachable(env *Env, b *Base, rp *Result) bool {
	pols := []string{"reverse", "shuffle", "shuffle", "rotate", "shuffle", "shuffle", "shuffle", "shuffle"}
	for k := 0; k < 32; k++ {
		pol := pols[k%len(pols)]
		st := b.StepOf(uint64(1000 + k))
		st.MapPolicy = pol
		st.SchedPolicy = []string{"random", "rtb-high", "prefer-high", "rtb-random"}[k%4]
		r, err := env.Exec(&st)
		if err != nil {
			return false
		}
		if r.Exit == rp.Exit && (bytes.Equal(r.Stdout, rp.Stdout) || sortedLines(r.Stdout) == sortedLines(rp.Stdout)) {
			return true
		}
	}
	return false
}

func sortedLines(b []byte) string {
	ls := strings.Split(string(b), "\n")
	sort.Strings(ls)
	return strings.Join(ls, "\n")
}

// FidelityGate: fault-free scenarios under the identity configuration must
// behave the same in the instrumented and in the plain binary (exit status
// and stdout; stdout as a multiset of lines where the plain output is
// map-order dependent). A mismatch means the instrumenter changed behaviour.
func FidelityGate(env *Env, seed uint64) (*FidelityResult, error) {
	var w Workload
	if err := w.Load(env); err != nil {
		return nil, err
	}
	res := &FidelityResult{}
	r := model.NewRand(seed, "fidelity")
	var bases []Base
	for i := 0; i < 40; i++ {
		switch i % 4 {
		case 0:
			bases = append(bases, w.GenText(r, false))
		case 1:
			bases = append(bases, w.GenDocCmd(r, false))
		default:
			bases = append(bases, w.GenInfo(r))
		}
	}
	// fixed ones: every listing command
	for _, argv := range [][]string{{"info", "key", "list"}, {"info", "chord", "list"}, {"info", "attr", "list"}, {"gen", "attr"}, {"info", "key", "conv", "--key", "E", "-c", "d"}} {
		bases = append(bases, Base{Argv: argv})
	}
	var mu sync.Mutex
	var firstErr error
	var wg sync.WaitGroup
	for i := range bases {
		wg.Add(1)
		go func() {
			defer wg.Done()
			b := &bases[i]
			st := b.StepOf(1)
			pl := b.StepOf(1)
			pl.Plain = true
			rs, err := env.Exec(&st)
			if err == nil {
				var rp *Result
				rp, err = env.Exec(&pl)
				if err == nil {
					mu.Lock()
					defer mu.Unlock()
					res.Scenarios++
					// a simulator verdict (hang) has no plain counterpart to compare
					if rs.Hang() != "" {
						return
					}
					sameExit := rs.Exit == rp.Exit
					switch {
					case sameExit && bytes.Equal(rs.Stdout, rp.Stdout):
						res.Exact++
					case sameExit && sortedLines(rs.Stdout) == sortedLines(rp.Stdout):
						res.AsLineSet++
					default:
						// a tree whose output depends on map order or schedule is not
						// an instrumentation problem: try to reach the plain result
						// under other seeded orders before calling it one
						if reachable(env, b, rp) {
							res.OrderDependent++
							return
						}
						// a tree that is nondeterministic on the real runtime has no
						// single plain behaviour to be faithful to
						plAgain := b.StepOf(1)
						plAgain.Plain = true
						for k := 0; k < 4; k++ {
							mu.Unlock()
							r2, err2 := env.Exec(&plAgain)
							mu.Lock()
							if err2 == nil && (r2.Exit != rp.Exit || !bytes.Equal(r2.Stdout, rp.Stdout)) {
								res.PlainNondeterministic++
								return
							}
						}
						// a tree whose output depends on the clock, the process id or
						// the like differs between simulated scenarios too (the seed
						// moves all of them): that is the tree, not the instrumenter
						var sims []*Result
						for k := 0; k < 6; k++ {
							sk := b.StepOf(uint64(7001 + 20_000_003*k)) // (spread over the simulated day)
							mu.Unlock()
							rk, errk := env.Exec(&sk)
							mu.Lock()
							if errk == nil {
								sims = append(sims, rk)
							}
						}
						for _, rk := range sims {
							if rk.Exit != rs.Exit || !bytes.Equal(rk.Stdout, rs.Stdout) {
								res.EnvironmentDependent++
								return
							}
						}
						if firstErr == nil {
							firstErr = Infraf("FIDELITY: instrumented and plain binary disagree on `crd %s`: sim exit=%d stdout=%q stderr=%q; plain exit=%d stdout=%q stderr=%q",
								strings.Join(b.Argv, " "), rs.Exit, first(rs.Stdout, 300), first(rs.Stderr, 300), rp.Exit, first(rp.Stdout, 300), first(rp.Stderr, 300))
						}
					}
					return
				}
			}
			mu.Lock()
			if firstErr == nil {
				firstErr = err
			}
			mu.Unlock()
		}()
	}
	wg.Wait()
	if firstErr != nil {
		return nil, firstErr
	}
	return res, nil
}

var timeRE = regexp.MustCompile(`"time":"[^"]*"`)
var time2RE = regexp.MustCompile(`(?m)^\d{4}/\d\d/\d\d \d\d:\d\d:\d\d `)

// normStderr removes the wall-clock timestamps slog puts on stderr (JSON
// handler and, before the logger is set up, the default text handler).
func normStderr(b []byte) []byte {
	return time2RE.ReplaceAll(timeRE.ReplaceAll(b, []byte(`"time":"T"`)), []byte("T "))
}

// Fingerprint is everything that must be equal between two executions of
// one scenario.
func Fingerprint(r *Result) string {
	var sb strings.Builder
	se := normStderr(r.Stderr)
	if len(se) > 1<<20 {
		// huge --debug logs are capped by the driver at a byte count that falls
		// at a timestamp-dependent place; compare their first part only
		se = se[:64<<10]
	}
	fmt.Fprintf(&sb, "exit=%d sig=%s\nstdout=%q\nstderr=%q\n", r.Exit, r.Signal, r.Stdout, se)
	if r.Journal != nil {
		jb, _ := json.Marshal(r.Journal)
		// created-file real paths carry the worker directory
		jb = regexp.MustCompile(`"real":"[^"]*"`).ReplaceAll(jb, []byte(`"real":"X"`))
		// the memory-traffic counters of the Go runtime are not part of the
		// simulated execution (they differ by a few kilobytes with GOMAXPROCS and
		// garbage-collection timing); their spread is reported separately
		jb = regexp.MustCompile(`"alloc_bytes":\d+,"mallocs":\d+`).ReplaceAll(jb, []byte(`"alloc_bytes":0,"mallocs":0`))
		sb.Write(jb)
	}
	names := make([]string, 0, len(r.Created))
	for n := range r.Created {
		names = append(names, n)
	}
	sort.Strings(names)
	for _, n := range names {
		fmt.Fprintf(&sb, "\ncreated %s=%q", n, r.Created[n])
	}
	return sb.String()
}

// AllocSpread: the largest relative difference of the bytes-allocated counter
// between two executions of one scenario seen by the last self-test (the
// growth rule compares ratios around 4 against a limit of 9).
var AllocSpread float64

// DeterminismSelfTest executes n scenarios (drawn from the C12/C09/C04
// generators, simulated steps only) six times each: twice at GOMAXPROCS 1, 4
// and 16, all workers busy. Any difference in the fingerprint is reported.
func DeterminismSelfTest(env *Env, seed uint64, n int) (bad, total int, err error) {
	st := NewStats()
	c12 := NewC12(st)
	c09 := NewC09(st)
	if err := c12.Prepare(env, "quick", seed); err != nil {
		return 0, 0, err
	}
	c09.w = c12.w
	c09.nRand = 1 << 30
	var steps []Step
	for i := 0; len(steps) < n; i++ {
		var c *Case
		if i%2 == 0 {
			c = c12.Generate(seed, i)
		} else {
			c = c09.Generate(seed, i)
		}
		for _, s := range c.Steps {
			if !s.Plain && s.StdinFrom == nil && len(steps) < n {
				steps = append(steps, s)
			}
		}
	}
	var mu sync.Mutex
	var wg sync.WaitGroup
	sem := make(chan struct{}, env.Workers())
	for i := range steps {
		wg.Add(1)
		go func() {
			defer wg.Done()
			var ref string
			var allocRef float64
			for k, gmp := range []int{1, 1, 4, 4, 16, 16} {
				s := steps[i]
				s.GoMaxProcs = gmp
				sem <- struct{}{}
				r, e := env.Exec(&s)
				<-sem
				mu.Lock()
				if e != nil {
					if err == nil {
						err = e
					}
					mu.Unlock()
					return
				}
				if r.Journal != nil && r.Journal.AllocBytes > 0 {
					a := float64(r.Journal.AllocBytes)
					if k%2 == 0 {
						allocRef = a // pairs of executions at the same GOMAXPROCS
					} else if allocRef > 8<<20 {
						d := (a - allocRef) / allocRef
						if d < 0 {
							d = -d
						}
						if d > AllocSpread {
							AllocSpread = d
						}
					}
				}
				fp := Fingerprint(r)
				if r.Crash() != "" {
					// stack traces carry addresses; compare the first line only
					fp = fmt.Sprintf("crash exit=%d %s stdout=%q", r.Exit, strings.SplitN(string(r.Stderr), "\n", 2)[0], r.Stdout)
				}
				if k == 0 {
					ref = fp
					total++
				} else if fp != ref {
					bad++
					if bad <= 3 {
						fmt.Printf("NONDETERMINISM: crd %s (GOMAXPROCS %d)\n--- first\n%s\n--- now\n%s\n", strings.Join(s.Argv, " "), gmp, first([]byte(ref), 1500), first([]byte(fp), 1500))
					}
				}
				mu.Unlock()
			}
		}()
	}
	wg.Wait()
	return bad, total, err
}
