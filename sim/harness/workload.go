package harness

import (
	"fmt"
	"regexp"
	"sort"
	"strings"

	"gopkg.in/yaml.v3"

	"verif/sim/model"
	"verif/sim/simrt"
)

func planIdentity() simrt.Plan { return simrt.Plan{} }

// GenPlan draws a delivery plan: 1-byte reads, irregular sizes, (0,nil)
// reads, EOF with or without data.
func GenPlan(r *model.Rand) simrt.Plan {
	var p simrt.Plan
	switch r.Intn(6) {
	case 0:
		p.Chunks = []int{1}
	case 1:
		p.Chunks = []int{1, 0, 1, 1}
	case 2:
		n := 1 + r.Intn(5)
		for i := 0; i < n; i++ {
			p.Chunks = append(p.Chunks, model.Pick(r, []int{1, 2, 3, 5, 7, 16, 64, 0, 1, 2}))
		}
	case 3:
		p.Chunks = []int{2, 0, 0, 3}
	case 4:
		p.Chunks = []int{4096}
	case 5:
		p.Chunks = []int{3, 1, 0, 0, 0, 2}
	}
	p.EOFWithData = r.Chance(1, 2)
	if r.Chance(1, 6) {
		p.DelaysUs = GenDelays(r)
	}
	return p
}

// GenDelays: a slow source. The first bytes arrive late, or every read takes
// its time, or only the end of input is late, or the source stalls for an hour.
func GenDelays(r *model.Rand) []int64 {
	return model.Pick(r, [][]int64{
		{5_000_000},
		{10_000_000, 0, 0},
		{100_000},
		{0, 0, 0, 60_000_000},
		{3_600_000_000, 0, 0, 0, 0, 0, 0, 0},
		{1, 999_999, 2_000_001},
		{31_000_000, 0},
	})
}

var mapPolicies = []string{"sorted", "reverse", "rotate", "shuffle", "shuffle"}
var schedPolicies = []string{"run-to-block", "random", "round-robin", "prefer-low", "prefer-high", "mostly-low", "mostly-high", "random", "rtb-high", "rtb-random", "rtb-high"}

// Workload knows the tree's own dictionaries (read through the simulated
// binary in Prepare) and draws commands with their inputs.
type Workload struct {
	ChordNames []string // names and display symbols
	ChordSyms  []string // display symbols usable in text (non-empty)
	AttrNames  []string
	Dynamics   []string // dynamic signs the tree's own help text lists
	Edge       bool     // also draw values at the edges of integer ranges (C09, C08)
	NewFlags   map[string][]NewFlag // per command: options the pinned commit does not have
}

func (w *Workload) Load(env *Env) error {
	r, err := env.Exec(&Step{Step: simrt.Step{Argv: []string{"info", "chord", "list"}}})
	if err != nil {
		return err
	}
	if !r.OK() {
		return Infraf("info chord list failed on this tree: exit=%d %s", r.Exit, first(r.Stderr, 300))
	}
	var chords []struct {
		Name string `yaml:"name"`
		Meta struct {
			Display string `yaml:"display"`
		} `yaml:"meta"`
	}
	if err := yaml.Unmarshal(r.Stdout, &chords); err != nil {
		return Infraf("info chord list: unreadable YAML: %v", err)
	}
	for _, c := range chords {
		w.ChordNames = append(w.ChordNames, c.Name, c.Meta.Display)
		if c.Meta.Display != "" {
			w.ChordSyms = append(w.ChordSyms, c.Meta.Display)
		}
	}
	r, err = env.Exec(&Step{Step: simrt.Step{Argv: []string{"info", "attr", "list"}}})
	if err != nil {
		return err
	}
	if !r.OK() {
		return Infraf("info attr list failed on this tree: exit=%d %s", r.Exit, first(r.Stderr, 300))
	}
	var attrs []struct {
		Name string `yaml:"name"`
	}
	if err := yaml.Unmarshal(r.Stdout, &attrs); err != nil {
		return Infraf("info attr list: unreadable YAML: %v", err)
	}
	for _, a := range attrs {
		w.AttrNames = append(w.AttrNames, a.Name)
	}
	// the dynamic signs this tree knows (flag help: "override velocity: p,mp,...")
	r, err = env.Exec(&Step{Step: simrt.Step{Argv: []string{"write", "--help"}}})
	if err != nil {
		return err
	}
	if m := regexp.MustCompile(`override velocity: ([A-Za-z,]+)`).FindSubmatch(append(r.Stdout, r.Stderr...)); m != nil {
		for _, d := range strings.Split(string(m[1]), ",") {
			if d != "" {
				w.Dynamics = append(w.Dynamics, d)
			}
		}
		sort.Strings(w.Dynamics)
	}
	if len(w.Dynamics) == 0 {
		w.Dynamics = []string{"pp", "p", "mp", "mf", "f", "ff"}
	}
	if len(w.ChordNames) == 0 || len(w.AttrNames) == 0 {
		return Infraf("empty dictionaries from the tree")
	}
	// flags this tree offers beyond the ones of the pinned commit (read from
	// its own help texts): a new option is part of "the same arguments"
	w.NewFlags = map[string][]NewFlag{}
	flagLine := regexp.MustCompile(`(?m)^\s+(?:-(\w), )?--([\w-]+)(?: (\w+))?\s{2,}`)
	for _, path := range [][]string{{"text", "parse"}, {"text", "conv", "degree"}, {"text", "conv", "syllable"}, {"write"}, {"write", "event"}, {"write", "parse"}, {"write", "conv"},
		{"info", "attr", "list"}, {"info", "attr", "describe"}, {"info", "chord", "list"}, {"info", "chord", "describe"}, {"info", "key", "list"}, {"info", "key", "describe"}, {"info", "key", "conv"}, {"gen", "attr"}} {
		r, err := env.Exec(&Step{Step: simrt.Step{Argv: append(append([]string{}, path...), "--help")}})
		if err != nil {
			return err
		}
		for _, m := range flagLine.FindAllSubmatch(append(r.Stdout, r.Stderr...), -1) {
			name := string(m[2])
			if pinnedFlags[name] {
				continue
			}
			w.NewFlags[strings.Join(path, " ")] = append(w.NewFlags[strings.Join(path, " ")], NewFlag{Name: "--" + name, Type: string(m[3])})
		}
	}
	return nil
}

// NewFlag is an option of the tree under test that the pinned commit does not have.
type NewFlag struct {
	Name string
	Type string // "" for a switch; string, int, uint, ... as the help text says
}

// pinnedFlags: the long option names of the pinned commit.
var pinnedFlags = map[string]bool{"help": true, "attr": true, "chord": true, "debug": true, "output": true, "bpm": true, "instrument": true, "key": true, "meter": true,
	"program": true, "track": true, "velocity": true, "command": true, "target": true, "root": true, "precedeSharp": true, "maxDegree": true, "port": true}

// WithNewFlag adds one of the tree's new options to a command (for every
// execution of a family alike).
func (w *Workload) WithNewFlag(r *model.Rand, b *Base) string {
	fl := w.NewFlags[CommandOf(b.Argv)]
	if len(fl) == 0 {
		return ""
	}
	f := model.Pick(r, fl)
	switch f.Type {
	case "":
		b.Argv = append(b.Argv, f.Name+"=true")
	case "int", "uint", "uint8", "uint16", "uint32", "int64", "uint64", "float64":
		b.Argv = append(b.Argv, f.Name+"="+model.Pick(r, []string{"1", "2", "3", "16"}))
	case "duration":
		b.Argv = append(b.Argv, f.Name+"="+model.Pick(r, []string{"1s", "1h"}))
	default:
		b.Argv = append(b.Argv, f.Name+"="+model.Pick(r, []string{"x", "1", "a,b"}))
	}
	return f.Name
}

// Base is a command with its input, before any variation.
type Base struct {
	Argv     []string
	Input    []byte // nil: command takes no input
	InputArg bool   // command accepts [FILE]
	Files    map[string]*simrt.FileSpec
	Class    string // text|doc|info|gen
	Tracks   int
}

var roots = []string{"C", "D", "E", "F", "G", "A", "B", "C#", "Db", "Eb", "F#", "Gb", "Ab", "Bb", "Cb", "B#", "E#", "Fb", "D#", "G#", "A#"}

func chain(r *model.Rand, maxLen int) string {
	n := 1 + r.Intn(maxLen)
	var sb strings.Builder
	for i := 0; i < n; i++ {
		sb.WriteByte("prds"[r.Intn(4)])
	}
	return sb.String()
}

// userDict draws a small consistent user dictionary (chords + attributes).
// Besides fresh names it may override a built-in chord by name, or give a new
// chord a display symbol a built-in chord (or another user chord) already
// has: the later definition must win, on every run.
func (w *Workload) userDict(r *model.Rand) (chordYAML, attrYAML string, names []string) {
	attrYAML = "- name: MyFlat10\n  degree: \"b10\"\n- name: MySharp11\n  degree: \"#11\"\n"
	chordYAML = "- name: MyChord\n  meta:\n    display: my\n  attributes:\n    - Perfect1\n    - Major3\n    - MyFlat10\n" +
		"- name: MyChild\n  meta:\n    display: my11\n  extends: MyChord\n  attributes:\n    - MySharp11\n"
	names = []string{"MyChord", "my", "MyChild", "my11"}
	switch r.Intn(5) {
	case 0: // display collides with a built-in display
		chordYAML += "- name: MinorAddNinth\n  meta:\n    display: m\n  extends: MinorTriad\n  attributes:\n    - Major9\n"
		names = append(names, "m", "MinorAddNinth", "MinorTriad")
	case 1: // override a built-in by name, with another display
		chordYAML += "- name: DominantSeventh\n  meta:\n    display: dom7\n  extends: MajorTriad\n  attributes:\n    - Minor7\n    - Major9\n"
		names = append(names, "7", "dom7", "DominantSeventh")
	case 2: // two user chords share one display
		chordYAML += "- name: TwinA\n  meta:\n    display: tw\n  attributes:\n    - Perfect1\n    - Perfect5\n" +
			"- name: TwinB\n  meta:\n    display: tw\n  attributes:\n    - Perfect1\n    - Perfect4\n"
		names = append(names, "tw", "TwinA", "TwinB")
	case 3: // a user chord's display equals a built-in chord's name
		chordYAML += "- name: Shadow\n  meta:\n    display: MinorTriad\n  attributes:\n    - Perfect1\n    - Major2\n"
		names = append(names, "MinorTriad", "Shadow", "m")
	}
	return
}

// GenText draws a text-processing command.
func (w *Workload) GenText(r *model.Rand, big bool) Base {
	mode := model.Pick(r, []string{"syllable", "degree"})
	o := &model.TextOpts{Mode: mode, MaxItems: 8, Trivia: r.Chance(2, 3), Unicode: r.Chance(1, 3), Exotic: r.Chance(1, 5),
		Meta: r.Chance(2, 3), Musical: !r.Chance(1, 6), KnownSyms: w.ChordSyms, EndComment: false}
	if big {
		o.MaxItems = 150
	}
	s := model.GenSentence(r, o)
	var argv []string
	switch r.Intn(5) {
	case 0, 1:
		argv = []string{"text", "parse"}
	default:
		argv = []string{"text", "conv", mode}
		if mode == "syllable" && r.Chance(2, 3) {
			argv = append(argv, "--key", model.Pick(r, model.SupportedKeys))
		}
	}
	return Base{Argv: argv, Input: []byte(s.Text), InputArg: true, Class: "text"}
}

var yamlShapes = []string{
	// an instance that merges (or contains) itself, directly and one level down
	"- &a\n  <<: *a\n  chord: {degree: \"1\", name: \"\"}\n  values: [\"1\"]\n",
	"- &a {<<: *a, values: [\"1\"]}\n",
	"- &a\n  <<: [*a]\n  values: [\"1\"]\n",
	"- &a\n  values: [\"1\"]\n  meta: {<<: *a}\n",
	"- &a\n  chord: &b {<<: *b, degree: \"1\", name: \"\"}\n  values: [\"1\"]\n",
	"- &a [*a]\n",
	// an alias whose anchor has a numeric name, standing where a duration is expected
	"- meta: {txt: &2 \"1/0\"}\n  chord: {degree: \"1\", name: \"\"}\n  values: [*2]\n",
	"- meta: {txt: &4 \"0\"}\n  values: [*4]\n- chord: {degree: \"1\", name: \"\"}\n  values: [\"1\"]\n",
	"- &a\n  chord: {degree: \"1\", name: \"\"}\n  values: [\"1\"]\n- *a\n- *a\n",
	"- &a {values: [\"1\"], bpm: 90}\n- <<: *a\n  chord: {degree: \"5\", name: \"7\"}\n",
	"- values: &v [\"1\", \"1/2\"]\n- values: *v\n  chord: {degree: \"2\", name: m}\n",
	"- values: [\"1\"]\n---\n- values: [\"2\"]\n",
	"---\n- values: [\"1\"]\n...\n---\n- chord: {degree: \"1\", name: \"\"}\n  values: [\"1\"]\n",
	"- values: [\"1\"]\n  values: [\"2\"]\n",
	"- chord: {degree: \"1\", name: \"\"}\n  chord: {degree: \"2\", name: m}\n  values: [\"1\"]\n",
	"- values: 1\n", "- values: {a: b}\n", "- values: [[1]]\n", "- values: [1.5]\n", "- values: [-1]\n", "- values: [1e2]\n", "- values: [0x10]\n", "- values: [true]\n", "- values: [\" 1\"]\n", "- values: [\"1 \"]\n", "- values: [\"+1\"]\n", "- values: [\"1/2/3\"]\n", "- values: [\"/2\"]\n", "- values: [\"1/\"]\n",
	"- values: [\"1\"]\n  bpm: [1]\n", "- values: [\"1\"]\n  bpm: -1\n", "- values: [\"1\"]\n  bpm: 1.5\n", "- values: [\"1\"]\n  bpm: \"1e2\"\n", "- values: [\"1\"]\n  bpm: ~\n", "- values: [\"1\"]\n  bpm: {a: 1}\n", "- values: [\"1\"]\n  bpm: 18446744073709551616\n",
	"- values: [\"1\"]\n  velocity: 5\n", "- values: [\"1\"]\n  velocity: [f]\n", "- values: [\"1\"]\n  velocity: ~\n", "- values: [\"1\"]\n  velocity: \"\"\n",
	"- values: [\"1\"]\n  meter: 4\n", "- values: [\"1\"]\n  meter: [4, 4]\n", "- values: [\"1\"]\n  meter: \"4/4/4\"\n", "- values: [\"1\"]\n  meter: ~\n", "- values: [\"1\"]\n  meter: \"\"\n",
	"- values: [\"1\"]\n  key: 5\n", "- values: [\"1\"]\n  key: [C]\n", "- values: [\"1\"]\n  key: ~\n", "- values: [\"1\"]\n  key: \"\"\n", "- values: [\"1\"]\n  key: \"c\"\n", "- values: [\"1\"]\n  key: \"Cmaj\"\n", "- values: [\"1\"]\n  key: \"xxCyy\"\n",
	"- values: [\"1\"]\n  meta: [a]\n", "- values: [\"1\"]\n  meta: {txt: [1]}\n", "- values: [\"1\"]\n  meta: {txt: {a: b}}\n", "- values: [\"1\"]\n  meta: {1: 2}\n", "- values: [\"1\"]\n  meta: {? [a] : b}\n", "- values: [\"1\"]\n  meta: \"txt\"\n",
	"- chord: x\n  values: [\"1\"]\n", "- chord: [1, m]\n  values: [\"1\"]\n", "- chord: {degree: 1, name: 7}\n  values: [\"1\"]\n", "- chord: {degree: \"1\", name: ~}\n  values: [\"1\"]\n", "- chord: {degree: \"1\", name: [m]}\n  values: [\"1\"]\n", "- chord: {degree: \"1\", name: \"\", base: 3}\n  values: [\"1\"]\n", "- chord: {degree: \"1\", name: \"\", base: \"0\"}\n  values: [\"1\"]\n", "- chord: {degree: \"\", name: \"\"}\n  values: [\"1\"]\n",
	"- !!set {values: ~}\n", "- !!binary aGVsbG8=\n", "- values: !!float [\"1\"]\n", "- values: [!!int \"1\"]\n", "- values: [!!str 1]\n", "- !foo\n  values: [\"1\"]\n",
	"values: [\"1\"]\n", "\"just a string\"\n", "42\n", "- 42\n", "- [1, 2]\n", "- \"x\"\n", "- {}\n", "- ~\n- values: [\"1\"]\n", "[{values: [\"1\"]}]\n", "[{values: [\"1\"]},]\n",
	"- values: [\"1\"]\n  unknown: field\n", "- Values: [\"1\"]\n", "- VALUES: [\"1\"]\n",
	"- values:\n    - \"1" + strings.Repeat("0", 5000) + "\"\n", "- values: [\"1\"]\n  meta: {txt: \"" + strings.Repeat("x", 100000) + "\"}\n",
	strings.Repeat("[", 2000) + strings.Repeat("]", 2000) + "\n", "- " + strings.Repeat("{a: ", 1000) + "1" + strings.Repeat("}", 1000) + "\n",
	"a: &a [*a]\n", "- &x [*x]\n", "&a [" + strings.Repeat("*a,", 50) + "]\n",
	"a: &a [1,1,1,1,1,1,1,1,1]\nb: &b [*a,*a,*a,*a,*a,*a,*a,*a,*a]\nc: &c [*b,*b,*b,*b,*b,*b,*b,*b,*b]\nd: &d [*c,*c,*c,*c,*c,*c,*c,*c,*c]\ne: &e [*d,*d,*d,*d,*d,*d,*d,*d,*d]\nf: [*e,*e,*e,*e,*e,*e,*e,*e,*e]\n",
	"- values: [\"1\"]\n\t- bad indent\n", "- values: [\"1\"\n", "- values: [\"1\"]]\n", "%YAML 1.2\n---\n- values: [\"1\"]\n", "%TAG ! tag:x,2000:\n---\n- values: [\"1\"]\n",
}

// GenTextN draws a text command with about n items.
func (w *Workload) GenTextN(r *model.Rand, n int) Base {
	mode := model.Pick(r, []string{"syllable", "degree"})
	o := &model.TextOpts{Mode: mode, MaxItems: 1, Trivia: r.Chance(1, 2), Unicode: r.Chance(1, 4), Meta: true, Musical: true, KnownSyms: w.ChordSyms}
	var items []model.ItemT
	if r.Chance(1, 5) {
		// the piece opens with a long run of rests (more AST nodes than any
		// buffer between the walker and its consumer holds)
		k := 34 + r.Intn(60)
		for i := 0; i < k; i++ {
			items = append(items, model.ItemT{Rest: true, Values: []model.ValueT{{Num: "1"}}})
		}
		n += k
	}
	for len(items) < n {
		items = append(items, model.GenItems(r, o)...)
	}
	// plain accidentals only, so that most chords convert in most keys
	for i := range items {
		if mode == "syllable" && r.Chance(2, 3) {
			items[i].Degree.HasAcc, items[i].Degree.Acc = false, ""
			if items[i].Bass != nil {
				items[i].Bass.HasAcc, items[i].Bass.Acc = false, ""
			}
		}
	}
	text := model.Render(r, o, items)
	argv := []string{"text", "conv", mode}
	if mode == "syllable" && r.Chance(1, 2) {
		argv = append(argv, "--key", model.Pick(r, []string{"C", "G", "F", "D", "Am", "Em"}))
	}
	if r.Chance(1, 5) {
		argv = []string{"text", "parse"}
	}
	return Base{Argv: argv, Input: []byte(text), InputArg: true, Class: "text"}
}

// GenDocCmd draws a `write ...` command with an instances document.
func (w *Workload) GenDocCmd(r *model.Rand, big bool) Base {
	o := &model.DocOpts{MaxInsts: 8, ChordNames: w.ChordNames, Dynamics: w.Dynamics, Settings: r.Chance(2, 3), Meta: r.Chance(1, 2), Unicode: r.Chance(1, 3),
		BigDegrees: r.Chance(1, 4), RestBias: r.Intn(4), TrailRest: r.Chance(1, 5), OddValues: r.Chance(1, 4), EdgeValues: w.Edge && r.Chance(1, 10)}
	if big {
		o.MaxInsts = 120
	}
	if r.Chance(1, 12) {
		// a few hundred instances (enough for work to be split per CPU)
		o.MaxInsts = 8
		d0 := model.GenDoc(r, o)
		want := 120 + r.Intn(480) // thresholds such as 128, 256, 512 lie inside
		if r.Chance(1, 5) {
			// beyond a thousand instances (thresholds such as 1024)
			want = 1030 + r.Intn(500)
		}
		for len(d0.Insts) < want {
			d0.Insts = append(d0.Insts, model.GenDoc(r, o).Insts...)
		}
		d0.Insts = d0.Insts[:want]
		argv := append([]string{}, model.Pick(r, [][]string{{"write", "parse"}, {"write", "conv", "-c", "cmt"}, {"write", "event"}, {"write"}})...)
		if r.Chance(1, 3) {
			// an override given once applies once, wherever the work is split
			ov := model.Pick(r, [][]string{{"--bpm", "97"}, {"--key", "Eb"}, {"--velocity", "pp"}, {"--meter", "3/4"}, {"--bpm", "200", "--key", "F#m"}})
			argv = append(argv, ov...)
		}
		return Base{Argv: argv, Input: []byte(d0.YAML(r.Intn(2))), InputArg: true, Class: "doc", Tracks: 1}
	}
	if r.Chance(1, 150) {
		// several hundred instances: outputs of a few hundred KiB
		o.MaxInsts = 900
		big = true
	}
	d := model.GenDoc(r, o)
	for len(d.Insts) < 300 && o.MaxInsts == 900 {
		d.Insts = append(d.Insts, model.GenDoc(r, o).Insts...)
	}
	if w.Edge && r.Chance(1, 15) {
		// valid YAML of unusual structure
		raw := model.Pick(r, yamlShapes)
		cmd := model.Pick(r, [][]string{{"write"}, {"write", "event"}, {"write", "parse"}, {"write", "conv", "-c", "cmt"}})
		return Base{Argv: append([]string{}, cmd...), Input: []byte(raw), InputArg: true, Class: "doc", Tracks: 1}
	}
	if w.Edge && r.Chance(1, 25) {
		// a chord that lacks a field, or has it null / of another type
		i := r.Intn(len(d.Insts))
		if d.Insts[i].Chord != nil {
			raw := model.Pick(r, []string{
				"- chord:\n    name: \"m\"\n  values:\n    - \"1\"\n",
				"- chord:\n    degree: ~\n    name: \"\"\n  values:\n    - \"1\"\n",
				"- chord:\n    degree: \"1\"\n  values:\n    - \"1\"\n",
				"- chord: {}\n  values:\n    - \"1\"\n",
				"- chord: ~\n  values:\n    - \"1\"\n",
				"- chord:\n    degree: \"1\"\n    name: \"\"\n    base: ~\n  values:\n    - \"1\"\n",
				"- chord:\n    degree: [1]\n    name: \"\"\n  values:\n    - \"1\"\n",
				"- chord:\n    degree: \"1\"\n    name: \"\"\n  values: \"1\"\n",
				"- chord:\n    degree: \"1\"\n    name: \"\"\n  values:\n    - ~\n",
				"- chord:\n    degree: \"1\"\n    name: \"\"\n  values:\n    - \"1\"\n  meta: ~\n",
				"- chord:\n    degree: \"1\"\n    name: \"\"\n  values:\n    - \"1\"\n  meta:\n    txt: ~\n",
			})
			b0 := Base{Argv: []string{"write", model.Pick(r, []string{"parse", "event", "conv"})}, Input: []byte(d.YAML(0) + raw), InputArg: true, Class: "doc", Tracks: 1}
			if b0.Argv[1] == "conv" {
				b0.Argv = append(b0.Argv, "-c", "cmt")
			}
			if r.Chance(1, 4) {
				b0.Argv = []string{"write"}
			}
			return b0
		}
	}
	if r.Chance(1, 12) {
		// degrees far outside anything playable
		i := r.Intn(len(d.Insts))
		if c := d.Insts[i].Chord; c != nil {
			if r.Chance(1, 2) {
				c.Degree = model.Pick(r, model.DocDegreesHuge)
			} else {
				c.Base = model.Pick(r, model.DocDegreesHuge)
			}
		}
	}
	var argv []string
	switch r.Intn(6) {
	case 0, 1:
		argv = []string{"write"}
	case 2:
		argv = []string{"write", "event"}
	case 3:
		argv = []string{"write", "parse"}
	case 4:
		argv = []string{"write", "conv", "-c", "cmt"}
	default:
		argv = []string{"write"}
	}
	b := Base{Argv: argv, Input: []byte(d.YAML(r.Intn(2))), InputArg: true, Class: "doc", Tracks: 1}
	if r.Chance(1, 3) {
		b.Tracks = model.Pick(r, []int{1, 2, 3, 4, 5, 8, 16})
		b.Argv = append(b.Argv, "--track", fmt.Sprint(b.Tracks))
	}
	if !big && len(d.Insts) <= 6 && r.Chance(1, 60) {
		// track counts around the limits of the header and of the reader
		// (legitimate but heavy: N^2 ticks)
		b.Tracks = model.Pick(r, []int{32767, 32768, 32769, 40000, 65535})
		b.Argv = append(b.Argv, "--track", fmt.Sprint(b.Tracks))
	}
	if r.Chance(1, 5) {
		b.Argv = append(b.Argv, "--key", model.Pick(r, model.SupportedKeys))
	}
	if r.Chance(1, 6) {
		b.Argv = append(b.Argv, "--bpm", fmt.Sprint(40+r.Intn(200)))
	}
	if r.Chance(1, 8) {
		b.Argv = append(b.Argv, "--velocity", model.Pick(r, w.Dynamics))
	}
	if r.Chance(1, 8) {
		b.Argv = append(b.Argv, "--meter", model.Pick(r, []string{"3/4", "6/8", "4/4", "5/4"}))
	}
	if r.Chance(1, 8) {
		b.Argv = append(b.Argv, "--instrument", model.Pick(r, []string{"Organ", "ピアノ", "", "a b"}), "--program", fmt.Sprint(r.Intn(128)))
	}
	return b
}

// GenInfo draws a lookup command (no input).
func (w *Workload) GenInfo(r *model.Rand) Base {
	b := Base{Class: "info"}
	switch r.Intn(12) {
	case 0:
		b.Argv = []string{"info", "attr", "list"}
	case 1:
		b.Argv = []string{"info", "attr", "describe", "-t", model.Pick(r, w.AttrNames), "-r", model.Pick(r, roots)}
		if r.Chance(1, 2) {
			b.Argv = append(b.Argv, "-s")
		}
	case 2:
		b.Argv = []string{"info", "chord", "list"}
	case 3:
		t := model.Pick(r, roots)
		sym := model.Pick(r, w.ChordSyms)
		if sym != "" && (sym[0] >= '0' && sym[0] <= '9' || strings.ContainsRune("CDEFGABRb#", rune(sym[0]))) {
			if !r.Chance(1, 5) {
				t += "_"
			} // else: the underscore is forgotten (C7, Bb9): whatever the tree makes of it, it makes it every time
		}
		b.Argv = []string{"info", "chord", "describe", "-t", t + sym}
		if r.Chance(1, 2) {
			b.Argv = append(b.Argv, "-s")
		}
	case 4:
		if r.Chance(1, 4) {
			// a command given without the option it needs: it fails, the same way every time
			b.Argv = model.Pick(r, [][]string{{"info", "attr", "describe"}, {"info", "chord", "describe"}, {"info", "key", "describe"}, {"info", "key", "conv"}, {"info", "attr", "describe", "-s"}})
			break
		}
		b.Argv = []string{"info", "key", "list"}
	case 5:
		b.Argv = []string{"info", "key", "list"}
	case 6:
		b.Argv = []string{"info", "key", "describe", "--key", model.Pick(r, model.SupportedKeys)}
	case 7, 8, 9, 10:
		b.Argv = []string{"info", "key", "conv", "--key", model.Pick(r, model.SupportedKeys), "-c", chain(r, 8)}
	case 11:
		b.Argv = []string{"gen", "attr"}
		b.Class = "gen"
		if r.Chance(1, 2) {
			b.Argv = append(b.Argv, "-d", fmt.Sprint(1+r.Intn(40)))
		}
	}
	return b
}

// WithDict adds a user dictionary to a command and makes the input use it.
func (w *Workload) WithDict(r *model.Rand, b *Base) {
	c, a, names := w.userDict(r)
	if b.Files == nil {
		b.Files = map[string]*simrt.FileSpec{}
	}
	b.Files["/sim/chords.yml"] = &simrt.FileSpec{Data: []byte(c), Plan: GenPlan(r)}
	b.Files["/sim/attrs.yml"] = &simrt.FileSpec{Data: []byte(a), Plan: GenPlan(r)}
	b.Argv = append(b.Argv, "--attr", "/sim/attrs.yml", "--chord", "/sim/chords.yml")
	if r.Chance(1, 2) {
		// several definition files; later ones redefine names of earlier ones
		// (the last definition on the command line must win, on every run)
		c2 := "- name: MyChord\n  meta:\n    display: my\n  attributes:\n    - Perfect1\n    - Perfect4\n" +
			"- name: Third\n  meta:\n    display: th\n  attributes:\n    - Perfect1\n    - Minor3\n"
		c3 := "- name: Third\n  meta:\n    display: th\n  attributes:\n    - Perfect1\n    - Major3\n    - Major7\n" +
			"- name: MyChild\n  meta:\n    display: my11\n  attributes:\n    - Perfect1\n"
		a2 := "- name: MyFlat10\n  degree: \"10\"\n- name: Extra13\n  degree: \"13\"\n"
		b.Files["/sim/chords2.yml"] = &simrt.FileSpec{Data: []byte(c2), Plan: GenPlan(r)}
		b.Files["/sim/chords3.yml"] = &simrt.FileSpec{Data: []byte(c3), Plan: GenPlan(r)}
		b.Files["/sim/attrs2.yml"] = &simrt.FileSpec{Data: []byte(a2), Plan: GenPlan(r)}
		b.Argv = append(b.Argv, "--chord", "/sim/chords2.yml", "--attr", "/sim/attrs2.yml", "--chord", "/sim/chords3.yml")
		names = append(names, "Third", "th", "my", "my11", "MyChord")
		if r.Chance(1, 5) {
			// one of the later files cannot be used: every run must fail alike
			switch r.Intn(5) {
			case 3:
				// well-formed YAML that names an attribute nobody defines
				b.Files["/sim/chords3.yml"] = &simrt.FileSpec{Data: []byte("- name: Third\n  meta:\n    display: th\n  attributes:\n    - Perfect1\n    - NoSuchAttribute\n")}
			case 4:
				b.Files["/sim/chords2.yml"] = &simrt.FileSpec{Data: []byte("- name: Third\n  meta:\n    display: th\n  extends: NoSuchChord\n")}
			case 0:
				delete(b.Files, "/sim/chords3.yml")
			case 1:
				b.Files["/sim/attrs2.yml"] = &simrt.FileSpec{Data: []byte("- name: [unclosed\n")}
			default:
				b.Files["/sim/chords2.yml"] = &simrt.FileSpec{OpenErr: "EACCES"}
			}
		}
	}
	switch b.Class {
	case "doc":
		for i := 0; i < 3; i++ {
			b.Input = append(b.Input, []byte("- chord:\n    degree: \""+model.Pick(r, []string{"1", "4", "b7"})+"\"\n    name: \""+model.Pick(r, names)+"\"\n  values:\n    - \"1\"\n")...)
		}
	case "info":
		if len(b.Argv) >= 3 && b.Argv[1] == "chord" && b.Argv[2] == "describe" {
			nm := model.Pick(r, names)
			t := "C" + nm
			if strings.ContainsRune("CDEFGABRb#0123456789", rune(nm[0])) {
				t = "C_" + nm
			}
			for i := range b.Argv {
				if b.Argv[i] == "-t" && i+1 < len(b.Argv) {
					b.Argv[i+1] = t
				}
			}
		}
	}
}

// StepOf turns a base command into the identity step (input on stdin).
func (b *Base) StepOf(seed uint64) Step {
	st := Step{Step: simrt.Step{Argv: append([]string{}, b.Argv...), Seed: seed, MapPolicy: "sorted", SchedPolicy: "run-to-block"}}
	if b.Input != nil {
		st.Stdin = &simrt.Stream{Data: b.Input}
	}
	if len(b.Files) > 0 {
		st.Files = map[string]*simrt.FileSpec{}
		for k, v := range b.Files {
			cp := *v
			st.Files[k] = &cp
		}
	}
	return st
}
