package harness

import (
	"fmt"
	"strconv"
	"strings"

	"verif/sim/model"
	"verif/sim/simrt"
)

// C08 — every file written is a well-formed Standard MIDI File. Decided as an
// output invariant: every successful `crd write` of the campaign (stdout and
// -o) goes through the strict reader. Honest fit: schedule and delivery are
// expected to be inert here; what simulation adds is the set of
// accepted-but-unusual documents and flag values the faults reach.
type C08 struct {
	w     Workload
	stats *Stats
}

func NewC08(st *Stats) *C08 { return &C08{stats: st} }

func (p *C08) ID() string    { return "C08" }
func (p *C08) Level() string { return "exploration" }

func (p *C08) Prepare(env *Env, tier string, seed uint64) error {
	p.w.Edge = true
	return p.w.Load(env)
}

func (p *C08) Runs(tier string) int {
	if tier == "thorough" {
		return 60000 + p.nSweep()
	}
	return 2500 + p.nSweep()
}

var c08Tracks = []int{1, 1, 1, 2, 3, 4, 5, 8, 16, 32, 100, 255, 256}
var c08Instruments = []string{"Piano", "", "Organ", "ピアノ", "a b c", "\"q\"", "Ünïcödé ♯♭", "x\ny"}
var c08BigDegrees = []string{"22", "29", "36", "43", "57", "64", "100", "b64", "#50"}

// sweeps: deterministic enumerations of single flag/field values around
// encoding boundaries (7-bit data bytes, variable-length quantities, meta
// event lengths, track-count limits).
var c08BPMs = []string{"1", "2", "3", "4", "5", "14", "15", "16", "59", "60", "228", "229", "457", "458", "915", "916", "917", "1000", "3662", "3663", "14648", "14649", "58593", "58594", "234375", "234376", "1000000", "60000000", "60000001", "4294967295", "18446744073709551615"}
var c08Meters = []string{"1/1", "2/2", "3/4", "4/4", "6/8", "7/16", "5/32", "9/64", "3/128", "1/256", "4/3", "4/5", "4/6", "4/7", "127/4", "128/4", "255/4", "256/4", "257/4", "4/255", "4/65536", "65536/65536", "4294967296/4", "3/1"}
var c08TextLens = []int{0, 1, 126, 127, 128, 129, 255, 256, 16382, 16383, 16384, 16385, 70000}

func (p *C08) sweep(seed uint64, run int) *Case {
	r := model.NewRand(seed, fmt.Sprintf("C08/sweep/%d", run))
	doc := goodInst + "- chord:\n    degree: \"4\"\n    name: \"m7\"\n    base: \"5\"\n  values:\n    - \"1/3\"\n    - \"2\"\n- values:\n    - \"3/2\"\n"
	argv := []string{"write"}
	label := ""
	k := run
	switch {
	case k < 256:
		argv = append(argv, "--program", fmt.Sprint(k))
		label = "sweep:program"
	case k < 256+len(c08BPMs)*2:
		i := k - 256
		v := c08BPMs[i/2]
		if i%2 == 0 {
			argv = append(argv, "--bpm", v)
		} else {
			doc = "- values:\n    - \"1\"\n" + goodInst + "- chord:\n    degree: \"1\"\n    name: \"\"\n  values:\n    - \"1\"\n  bpm: " + v + "\n"
		}
		label = "sweep:bpm"
	case k < 256+len(c08BPMs)*2+len(c08Meters)*2:
		i := k - 256 - len(c08BPMs)*2
		v := c08Meters[i/2]
		if i%2 == 0 {
			argv = append(argv, "--meter", v)
		} else {
			doc = goodInst + "- values:\n    - \"1\"\n  meter: \"" + v + "\"\n" + goodInst
		}
		label = "sweep:meter"
	case k < 256+len(c08BPMs)*2+len(c08Meters)*2+len(c08TextLens)*4:
		i := k - 256 - len(c08BPMs)*2 - len(c08Meters)*2
		n := c08TextLens[i/4]
		unit := "a"
		if i%2 == 1 {
			unit = "é" // two bytes per character
		}
		txt := strings.Repeat(unit, n/len(unit))
		if (i/2)%2 == 0 {
			argv = append(argv, "--instrument", txt)
		} else {
			key := model.Pick(r, []string{"txt", "lic", "mrk"})
			doc = goodInst + "- values:\n    - \"1\"\n  meta:\n    " + key + ": \"" + txt + "\"\n" + goodInst
		}
		label = "sweep:text-length"
	default:
		i := k - 256 - len(c08BPMs)*2 - len(c08Meters)*2 - len(c08TextLens)*4
		n := 1 + i
		argv = append(argv, "--track", fmt.Sprint(n))
		label = "sweep:tracks"
	}
	c := &Case{Property: "C08", Kind: "smf", Seed: seed, Run: run, Labels: []string{label}, Params: map[string]string{}}
	st := Step{Step: simrt.Step{Argv: argv, Seed: r.U64(), Stdin: &simrt.Stream{Data: []byte(doc)}}, Note: "stdout"}
	c.Steps = append(c.Steps, st)
	return c
}

func (p *C08) nSweep() int {
	return 256 + len(c08BPMs)*2 + len(c08Meters)*2 + len(c08TextLens)*4 + 48
}

func (p *C08) Generate(seed uint64, run int) *Case {
	if run < p.nSweep() {
		return p.sweep(seed, run)
	}
	r := model.NewRand(seed, fmt.Sprintf("C08/%d", run))
	o := &model.DocOpts{MaxInsts: 1 + r.Intn(8), ChordNames: p.w.ChordNames, Settings: r.Chance(2, 3), Meta: r.Chance(1, 2), Unicode: r.Chance(1, 3),
		BigDegrees: r.Chance(1, 3), RestBias: r.Intn(5), TrailRest: r.Chance(1, 4), OddValues: r.Chance(1, 3), Dynamics: p.w.Dynamics, EdgeValues: r.Chance(1, 15)}
	if r.Chance(1, 40) {
		o.MaxInsts = 100
	}
	d := model.GenDoc(r, o)
	c := &Case{Property: "C08", Kind: "smf", Seed: seed, Run: run, Params: map[string]string{}}
	if r.Chance(1, 10) {
		// pitches far above the staff
		for i := range d.Insts {
			if d.Insts[i].Chord != nil && r.Chance(1, 2) {
				d.Insts[i].Chord.Degree = model.Pick(r, c08BigDegrees)
				c.Labels = append(c.Labels, "out-of-range-degree")
				break
			}
		}
	}
	if r.Chance(1, 12) {
		// very long durations (large deltas)
		i := r.Intn(len(d.Insts))
		d.Insts[i].Values = []string{model.Pick(r, []string{"100000", "279620", "279621", "4473924", "300000"})}
		c.Labels = append(c.Labels, "huge-duration")
	}
	data := []byte(d.YAML(r.Intn(2)))
	if r.Chance(1, 10) {
		// the document framed as (part of) a YAML stream: a leading marker, an
		// end marker, further documents behind it
		data = yamlStream(r, data)
		c.Labels = append(c.Labels, "yaml-stream")
	}
	if r.Chance(1, 6) {
		n := 1 + r.Intn(2)
		for j := 0; j < n; j++ {
			data = faultCorrupt(r, data, "doc")
		}
		c.Labels = append(c.Labels, "fault:F6:corrupt")
	}
	var bigChordFiles map[string]*simrt.FileSpec
	if r.Chance(1, 25) && len(p.w.AttrNames) > 30 {
		// a chord with more voices than any built-in one (polyphony limits)
		n := 20 + r.Intn(25)
		y := "- name: Cluster\n  meta:\n    display: cluster\n  attributes:\n"
		perm := r.Perm(len(p.w.AttrNames))
		for _, ai := range perm[:min(n, len(perm))] {
			y += "    - " + p.w.AttrNames[ai] + "\n"
		}
		bigChordFiles = map[string]*simrt.FileSpec{"/sim/cluster.yml": {Data: []byte(y)}}
		data = append(data, []byte("- chord:\n    degree: \"1\"\n    name: \"cluster\"\n    base: \"5\"\n  values:\n    - \"1\"\n- chord:\n    degree: \"4\"\n    name: \"cluster\"\n  values:\n    - \"1/2\"\n")...)
		c.Labels = append(c.Labels, "cluster-chord")
	}
	tracks := model.Pick(r, c08Tracks)
	switch {
	case r.Chance(1, 40):
		// beyond what the header can declare: must be refused, never written
		tracks = model.Pick(r, []int{65536, 70000, 131071, 2000000000})
	case r.Chance(1, 60):
		tracks = 1000
	case r.Chance(1, 500):
		// the largest legal count: legitimate but heavy (N^2 ticks)
		tracks = 65535
	}
	if tracks > 256 && tracks <= 65535 && len(d.Insts) > 12 {
		tracks = 32
	}
	argv := []string{"write"}
	if tracks != 1 || r.Chance(1, 2) {
		argv = append(argv, "--track", fmt.Sprint(tracks))
	}
	if r.Chance(1, 3) {
		prog := r.Intn(128)
		if r.Chance(1, 4) {
			prog = 128 + r.Intn(128)
		}
		argv = append(argv, "--program", fmt.Sprint(prog))
		c.Params["program"] = fmt.Sprint(prog)
	}
	if r.Chance(1, 3) {
		ins := model.Pick(r, c08Instruments)
		if r.Chance(1, 10) {
			ins = strings.Repeat("long instrument name ", 1+r.Intn(20000)/20)
		}
		argv = append(argv, "--instrument", ins)
	}
	if r.Chance(1, 6) {
		argv = append(argv, "--key", model.Pick(r, model.SupportedKeys))
	}
	if r.Chance(1, 8) {
		argv = append(argv, "--bpm", model.Pick(r, []string{"1", "3", "4", "60", "120", "300", "65535", "1000000", "60000001", "4294967295"}))
	}
	if r.Chance(1, 8) {
		argv = append(argv, "--meter", model.Pick(r, []string{"3/4", "6/8", "255/1", "256/4", "4/3", "1/128", "7/256", "4/65536"}))
	}
	if r.Chance(1, 4) {
		// an option this tree has and the pinned commit has not
		nb := Base{Argv: argv}
		if name := p.w.WithNewFlag(r, &nb); name != "" {
			argv = nb.Argv
			c.Labels = append(c.Labels, "new-flag:"+name)
		}
	}
	c.Params["tracks"] = fmt.Sprint(tracks)
	if bigChordFiles != nil {
		argv = append(argv, "--chord", "/sim/cluster.yml")
	}
	st := Step{Step: simrt.Step{Argv: argv, Seed: r.U64(), Stdin: &simrt.Stream{Data: data}, Files: bigChordFiles}, Note: "stdout"}
	if r.Chance(1, 4) {
		st.Stdin.Plan = GenPlan(r)
		st.MapPolicy = model.Pick(r, mapPolicies)
	}
	if r.Chance(1, 2) {
		st.SchedPolicy = model.Pick(r, schedPolicies)
		st.CPUs = model.Pick(r, []int{1, 2, 4, 16})
	}
	c.Steps = append(c.Steps, st)
	if r.Chance(1, 4) {
		st2 := st
		st2.Argv = append(append([]string{}, argv...), "-o", outPath)
		st2.Note = "outfile"
		st2.Files = cloneFiles(st.Files)
		switch r.Intn(4) {
		case 0, 1:
			withExistingOutput(r, &st2)
		case 2:
			st2.Files[outPath] = &simrt.FileSpec{RenameErr: "EXDEV"}
		case 3:
			st2.Files[outPath] = &simrt.FileSpec{Pipe: true}
		}
		c.Steps = append(c.Steps, st2)
	}
	return c
}

func trackBucket(n int) string {
	switch {
	case n == 1:
		return "tracks=1"
	case n <= 32:
		return "tracks=2..32"
	case n <= 65535:
		return "tracks=33..65535"
	}
	return "tracks>65535"
}

func flagInt(argv []string, name string, def int) int {
	for i := 0; i+1 < len(argv); i++ {
		if argv[i] == name {
			if v, err := strconv.Atoi(argv[i+1]); err == nil {
				return v
			}
		}
	}
	return def
}

// CheckSMFOutput applies the C08 invariant to one successful `crd write`.
func CheckSMFOutput(st *Step, r *Result) *Finding {
	if CommandOf(st.Argv) != "write" || !r.OK() {
		return nil
	}
	data := r.Stdout
	where := "stdout"
	if isOutVariant(st) {
		data = r.Created[outPath]
		where = "-o file"
	}
	tracks := flagInt(st.Argv, "--track", 1)
	_, err := model.ParseSMF(data, tracks)
	if err == nil {
		return nil
	}
	prog := flagInt(st.Argv, "--program", 0)
	pb := "program<128"
	if prog >= 128 {
		pb = "program>=128"
	}
	return &Finding{
		Signature: fmt.Sprintf("C08/%s/%s/%s", err.Class, trackBucket(tracks), pb),
		Detail:    fmt.Sprintf("`crd %s` succeeded but its %s (%d bytes) is not a well-formed SMF: %v; document %q", strings.Join(st.Argv, " "), where, len(data), err, first(inputOrEmpty(st), 300)),
	}
}

func inputOrEmpty(st *Step) []byte {
	if st.Stdin != nil {
		return st.Stdin.Data
	}
	return nil
}

func (p *C08) Evaluate(env *Env, c *Case) (*Outcome, error) {
	out := &Outcome{Results: make([]*Result, len(c.Steps))}
	for i := range c.Steps {
		r, err := env.Exec(&c.Steps[i])
		if err != nil {
			return nil, err
		}
		out.Results[i] = r
		if r.OK() {
			p.stats.Probe("c08:files-checked")
			if _, ok := c.HasLabel("fault:F6"); ok {
				p.stats.Probe("c08:corrupted-document-still-accepted")
			}
			if _, ok := c.HasLabel("out-of-range-degree"); ok {
				p.stats.Probe("c08:out-of-range-degree-accepted")
			}
		} else {
			p.stats.Probe("c08:document-refused")
		}
		if f := CheckSMFOutput(&c.Steps[i], r); f != nil {
			out.Findings = append(out.Findings, *f)
		}
	}
	return out, nil
}

func (p *C08) Shrinks(c *Case) []*Case {
	var out []*Case
	if len(c.Steps) > 1 {
		for i := range c.Steps {
			d := c.Clone()
			d.Steps = []Step{d.Steps[i]}
			out = append(out, d)
		}
	}
	for i := range c.Steps {
		d := c.Clone()
		if NormalizeStep(&d.Steps[i]) {
			out = append(out, d)
		}
	}
	out = append(out, dropFlagCandidates(c)...)
	for _, b := range shrinkDoc(c.Steps[0].Stdin.Data) {
		d := c.Clone()
		for i := range d.Steps {
			d.Steps[i].Stdin.Data = b
		}
		out = append(out, d)
	}
	return out
}

func (p *C08) Extra() map[string]any { return nil }

func (p *C08) Rule() string {
	return "case = one `crd write` (stdout, sometimes also -o) of a generated document (all fields, big degrees, huge durations, sometimes corrupted but still accepted) under a swarm of --track {1..70000}, --program 0..255, --instrument (arbitrary UTF-8, long), --bpm/--meter/--key; oracle = strict SMF reader sharing no code with gomidi; non-trivial/distinct as for C12 with the flag values part of argv"
}

func (p *C08) Assumptions() []string {
	return []string{
		"the strict reader encodes the property's own list (header, format, ntrks = --track = MTrk count, chunk lengths, VLQ <= 4 bytes, status/running status, data bytes < 128, one final end-of-track per track, note pairing inside each track chunk, tempo/time/key signature only in the first chunk, standard lengths of those meta events); nothing else is judged",
		"schedule and delivery variations are expected to be inert for this property",
	}
}

// yamlStream frames one instances document as a YAML stream.
func yamlStream(r *model.Rand, doc []byte) []byte {
	other := "- chord:\n    degree: \"5\"\n    name: \"7\"\n  values:\n    - \"2\"\n"
	switch r.Intn(6) {
	case 0:
		return append([]byte("---\n"), doc...)
	case 1:
		return append(append([]byte{}, doc...), []byte("...\n")...)
	case 2:
		return append(append([]byte{}, doc...), []byte("---\n"+other)...)
	case 3:
		return append(append([]byte("--- # first\n"), doc...), []byte("---\n"+other+"---\n"+other)...)
	case 4:
		return append(append([]byte{}, doc...), []byte("---\n")...)
	default:
		return append(append([]byte("%YAML 1.2\n---\n"), doc...), []byte("...\n---\n"+other+"...\n")...)
	}
}
