package harness

import (
	"fmt"
	"math/big"
	"strings"

	"gopkg.in/yaml.v3"

	"verif/sim/model"
	"verif/sim/simrt"
)

// C06 — --track N never changes the music; every track ends with the piece.
type C06 struct {
	w     Workload
	stats *Stats
}

func NewC06(st *Stats) *C06 { return &C06{stats: st} }

func (p *C06) ID() string    { return "C06" }
func (p *C06) Level() string { return "exploration" }

func (p *C06) Prepare(env *Env, tier string, seed uint64) error { return p.w.Load(env) }

func (p *C06) Runs(tier string) int {
	if tier == "thorough" {
		return 40000
	}
	return 1800
}

// sweepCase: one document written with every track count of a range.
func (p *C06) sweepCase(seed uint64, run int) *Case {
	r := model.NewRand(seed, fmt.Sprintf("C06/sweep/%d", run))
	o := &model.DocOpts{MaxInsts: 4 + r.Intn(8), ChordNames: p.w.ChordNames, Dynamics: p.w.Dynamics, Settings: true, Meta: true,
		BigDegrees: r.Chance(1, 3), RestBias: model.Pick(r, []int{1, 3, 5}), TrailRest: r.Chance(1, 2), OddValues: r.Chance(1, 2)}
	if run%4 == 3 {
		o.MaxInsts = 90
	}
	d := model.GenDoc(r, o)
	data := []byte(d.YAML(0))
	c := &Case{Property: "C06", Kind: "tracks", Seed: seed, Run: run, Labels: []string{"track-count-sweep"}}
	lo, hi := 1, 20
	if run%2 == 1 {
		lo, hi = 20, 40
	}
	c.Steps = append(c.Steps, Step{Step: simrt.Step{Argv: []string{"write", "--track", "1"}, Seed: r.U64(), Stdin: &simrt.Stream{Data: data}}, Note: "1"})
	for n := lo; n <= hi; n++ {
		if n == 1 {
			continue
		}
		c.Steps = append(c.Steps, Step{Step: simrt.Step{Argv: []string{"write", "--track", fmt.Sprint(n)}, Seed: r.U64(), Stdin: &simrt.Stream{Data: data}}, Note: fmt.Sprint(n)})
	}
	for _, n := range []int{64, 100, 128, 255, 256, 257} {
		if run%4 == 0 {
			c.Steps = append(c.Steps, Step{Step: simrt.Step{Argv: []string{"write", "--track", fmt.Sprint(n)}, Seed: r.U64(), Stdin: &simrt.Stream{Data: data}}, Note: fmt.Sprint(n)})
		}
	}
	return c
}

// longCase: a piece that lasts longer than 2^28 (and sometimes 2^32) ticks
// although every single instance stays below 2^28 ticks.
func (p *C06) longCase(seed uint64, run int) *Case {
	r := model.NewRand(seed, fmt.Sprintf("C06/long/%d", run))
	n := 2 + r.Intn(20)
	if run%2 == 1 {
		n = 17 + r.Intn(8) // more than 2^32 ticks in all
	}
	flavour := run % 3 // 0: a tempo change on every instance, 1: no control change at all, 2: some
	if run%4 == 1 {
		flavour = (run / 4) % 2 // wrap-around totals: with and without control changes
	}
	tones := model.Pick(r, []string{"", "m7", "maj7", "7"})
	var sb strings.Builder
	for i := 0; i < n; i++ {
		beats := 100000 + r.Intn(179000)
		if run%2 == 1 {
			beats = 262144 + r.Intn(17000)
		}
		if run%4 == 1 {
			// seventeen instances that add up to 2^32-256 ticks, then more: the
			// total passes 2^32 by less than 2^28
			beats = 263172
			if i >= 17 {
				beats = 1 + r.Intn(100000)
			}
			n = 18 + run%3
		}
		fmt.Fprintf(&sb, "- chord:\n    degree: \"%s\"\n    name: \"%s\"\n  values:\n    - \"%d\"\n", model.Pick(r, []string{"1", "4", "5", "b7"}), tones, beats)
		if flavour == 0 || (flavour == 2 && r.Chance(1, 3)) {
			fmt.Fprintf(&sb, "  bpm: %d\n", 60+r.Intn(120))
		}
		if run%4 != 1 && r.Chance(1, 5) {
			fmt.Fprintf(&sb, "- values:\n    - \"%d\"\n", 1000+r.Intn(200000))
		}
	}
	c := &Case{Property: "C06", Kind: "tracks", Seed: seed, Run: run, Labels: []string{"very-long-piece"}}
	for _, tn := range []int{1, 2, 3, 6, 8, 32} {
		c.Steps = append(c.Steps, Step{Step: simrt.Step{Argv: []string{"write", "--track", fmt.Sprint(tn)}, Seed: r.U64(), Stdin: &simrt.Stream{Data: []byte(sb.String())}}, Note: fmt.Sprint(tn)})
	}
	return c
}

func (p *C06) Generate(seed uint64, run int) *Case {
	if run < 16 {
		return p.sweepCase(seed, run)
	}
	if run < 40 {
		return p.longCase(seed, run)
	}
	r := model.NewRand(seed, fmt.Sprintf("C06/%d", run))
	o := &model.DocOpts{MaxInsts: 1 + r.Intn(10), ChordNames: p.w.ChordNames, Dynamics: p.w.Dynamics, Settings: r.Chance(2, 3), Meta: r.Chance(1, 2), Unicode: r.Chance(1, 4),
		BigDegrees: r.Chance(1, 5), RestBias: model.Pick(r, []int{0, 1, 3, 5, 8}), TrailRest: r.Chance(1, 3), OddValues: r.Chance(1, 3)}
	if r.Chance(1, 30) {
		o.MaxInsts = 80
	}
	d := model.GenDoc(r, o)
	c := &Case{Property: "C06", Kind: "tracks", Seed: seed, Run: run}
	if len(d.Insts) > 0 && d.Insts[0].Chord == nil {
		c.Labels = append(c.Labels, "leading-rest")
	}
	if d.Insts[len(d.Insts)-1].Chord == nil {
		c.Labels = append(c.Labels, "trailing-rest")
	}
	data := []byte(d.YAML(r.Intn(2)))
	// one case in eight: a corrupted document (kept only if write still accepts it)
	if r.Chance(1, 8) {
		data = faultCorrupt(r, data, "doc")
		c.Labels = append(c.Labels, "fault:F6:corrupt")
	}
	ns := []int{1}
	pool := []int{2, 3, 4, 5, 16, 32}
	ns = append(ns, model.Pick(r, pool), model.Pick(r, pool))
	if r.Chance(1, 2) {
		ns = append(ns, 2+r.Intn(63))
	}
	var extra []string
	if r.Chance(1, 5) {
		extra = append(extra, "--key", model.Pick(r, model.SupportedKeys))
	}
	if r.Chance(1, 6) {
		extra = append(extra, "--bpm", fmt.Sprint(40+r.Intn(200)))
	}
	for _, n := range ns {
		argv := append([]string{"write", "--track", fmt.Sprint(n)}, extra...)
		st := Step{Step: simrt.Step{Argv: argv, Seed: r.U64(), Stdin: &simrt.Stream{Data: data}}, Note: fmt.Sprint(n)}
		if r.Chance(1, 3) {
			st.Stdin.Plan = GenPlan(r)
			st.MapPolicy = model.Pick(r, mapPolicies)
		}
		if r.Chance(1, 2) {
			st.SchedPolicy = model.Pick(r, schedPolicies)
			st.CPUs = model.Pick(r, []int{1, 2, 4, 16})
		}
		c.Steps = append(c.Steps, st)
	}
	return c
}

// docDurations reads the instance durations back from the YAML the case
// carries (the oracle's own reading: values are "n" or "n/d").
func docDurations(data []byte) ([]*big.Rat, []bool, bool) {
	var insts []struct {
		Chord  *yaml.Node `yaml:"chord"`
		Values []string   `yaml:"values"`
	}
	if err := yaml.Unmarshal(data, &insts); err != nil {
		return nil, nil, false
	}
	var durs []*big.Rat
	var rests []bool
	for _, in := range insts {
		di := model.DocInst{Values: in.Values}
		d, ok := di.Duration()
		if !ok || len(in.Values) == 0 {
			return nil, nil, false
		}
		durs = append(durs, d)
		rests = append(rests, in.Chord == nil)
	}
	return durs, rests, len(durs) > 0
}

// tickBounds: sum over instances of round(T*v), both neighbours allowed when
// T*v is exactly halfway.
func tickBounds(durs []*big.Rat, division int) (lo, hi *big.Int) {
	lo, hi = new(big.Int), new(big.Int)
	T := big.NewRat(int64(division), 1)
	half := big.NewRat(1, 2)
	for _, v := range durs {
		x := new(big.Rat).Mul(T, v)
		// floor(x)
		fl := new(big.Int).Div(x.Num(), x.Denom())
		frac := new(big.Rat).Sub(x, new(big.Rat).SetInt(fl))
		switch frac.Cmp(half) {
		case -1:
			lo.Add(lo, fl)
			hi.Add(hi, fl)
		case 1:
			up := new(big.Int).Add(fl, big.NewInt(1))
			lo.Add(lo, up)
			hi.Add(hi, up)
		default:
			lo.Add(lo, fl)
			hi.Add(hi, new(big.Int).Add(fl, big.NewInt(1)))
		}
	}
	return
}

func (p *C06) Evaluate(env *Env, c *Case) (*Outcome, error) {
	out := &Outcome{Results: make([]*Result, len(c.Steps))}
	smfs := make([]*model.SMF, len(c.Steps))
	for i := range c.Steps {
		r, err := env.Exec(&c.Steps[i])
		if err != nil {
			return nil, err
		}
		out.Results[i] = r
	}
	base := out.Results[0]
	data := c.Steps[0].Stdin.Data
	add := func(sig, detail string) {
		out.Findings = append(out.Findings, Finding{Signature: sig, Detail: detail + fmt.Sprintf("; document %q", first(data, 400))})
	}
	// an idle track of a piece of 2^28 ticks or more cannot carry its
	// end-of-track delta in an SMF: refusing such a track count is not judged
	tooLong := false
	if durs, _, ok := docDurations(data); ok {
		_, hi := tickBounds(durs, 960)
		tooLong = hi.Cmp(big.NewInt(1<<28)) >= 0
	}
	for i := 1; i < len(c.Steps); i++ {
		if tooLong && base.OK() && !out.Results[i].OK() && out.Results[i].Crash() == "" && out.Results[i].Hang() == "" {
			p.stats.Probe("c06:too-long-for-an-idle-track-refused")
			continue
		}
		if out.Results[i].OK() != base.OK() {
			add("C06/status-differs", fmt.Sprintf("`crd %s` exit=%d but `crd %s` exit=%d", strings.Join(c.Steps[0].Argv, " "), base.Exit, strings.Join(c.Steps[i].Argv, " "), out.Results[i].Exit))
		}
	}
	if !base.OK() {
		p.stats.Probe("c06:document-refused")
		return out, nil
	}
	for i := range c.Steps {
		r := out.Results[i]
		if !r.OK() {
			continue
		}
		s, err := model.DecodeSMF(r.Stdout)
		if err != nil {
			add("C06/undecodable", fmt.Sprintf("output of `crd %s` cannot be decoded: %v", strings.Join(c.Steps[i].Argv, " "), err))
			continue
		}
		smfs[i] = s
	}
	if smfs[0] == nil {
		return out, nil
	}
	baseEvents := strings.Join(smfs[0].MergedEvents(), "\n")
	durs, rests, haveDurs := docDurations(data)
	var lo, hi *big.Int
	if haveDurs {
		lo, hi = tickBounds(durs, smfs[0].Division)
	}
	trailing := haveDurs && rests[len(rests)-1]
	for i, s := range smfs {
		if s == nil {
			continue
		}
		n := c.Steps[i].Note
		cmdline := "crd " + strings.Join(c.Steps[i].Argv, " ")
		// probes
		if i > 0 {
			p.stats.Probe("c06:multi-track-file")
			if len(s.Tracks) == 2 {
				p.stats.Probe("c06:N=2-all-notes-on-one-track")
			}
		}
		if i > 0 {
			ev := strings.Join(s.MergedEvents(), "\n")
			if ev != baseEvents {
				add("C06/events-differ", fmt.Sprintf("merged events of `%s` differ from --track 1: %s", cmdline, firstDiff(baseEvents, ev)))
			}
		}
		eot := s.Tracks[0].EOTTick
		same := true
		var eots []uint64
		for _, t := range s.Tracks {
			eots = append(eots, t.EOTTick)
			if t.EOTTick != eot {
				same = false
			}
		}
		if !same {
			add("C06/eot-differs-between-tracks", fmt.Sprintf("`%s`: end-of-track ticks %v", cmdline, clip(eots, 12)))
		}
		if haveDurs {
			for ti, t := range s.Tracks {
				e := new(big.Int).SetUint64(t.EOTTick)
				if e.Cmp(lo) < 0 {
					kind := "other"
					if trailing {
						kind = "trailing-rest"
					}
					add("C06/eot-before-end/"+kind, fmt.Sprintf("`%s`: track %d of %s ends at tick %d, the piece lasts %s..%s ticks", cmdline, ti, n, t.EOTTick, lo, hi))
					break
				}
				if e.Cmp(hi) > 0 {
					add("C06/eot-after-end", fmt.Sprintf("`%s`: track %d of %s ends at tick %d, the piece lasts %s..%s ticks", cmdline, ti, n, t.EOTTick, lo, hi))
					break
				}
			}
		}
	}
	if trailing {
		p.stats.Probe("c06:piece-ends-in-rest")
	}
	return out, nil
}

func clip(xs []uint64, n int) []uint64 {
	if len(xs) > n {
		return xs[:n]
	}
	return xs
}

func firstDiff(a, b string) string {
	la, lb := strings.Split(a, "\n"), strings.Split(b, "\n")
	for i := 0; i < len(la) || i < len(lb); i++ {
		var x, y string
		if i < len(la) {
			x = la[i]
		}
		if i < len(lb) {
			y = lb[i]
		}
		if x != y {
			return fmt.Sprintf("first difference at sorted position %d: %q vs %q (%d vs %d events)", i, x, y, len(la), len(lb))
		}
	}
	return "equal"
}

// shrinkDoc proposes documents with fewer instances / fields.
func shrinkDoc(data []byte) [][]byte {
	var insts []yaml.Node
	if err := yaml.Unmarshal(data, &insts); err != nil || len(insts) == 0 {
		return ShrinkBytes(data)
	}
	var out [][]byte
	enc := func(xs []yaml.Node) {
		if len(xs) == 0 {
			return
		}
		b, err := yaml.Marshal(xs)
		if err == nil {
			out = append(out, b)
		}
	}
	if len(insts) > 1 {
		enc(insts[:len(insts)/2])
		enc(insts[len(insts)/2:])
		for i := range insts {
			if len(insts) > 24 {
				break
			}
			var xs []yaml.Node
			xs = append(xs, insts[:i]...)
			xs = append(xs, insts[i+1:]...)
			enc(xs)
		}
	}
	// drop one optional field of one instance
	for i := range insts {
		if len(insts) > 12 {
			break
		}
		m := insts[i]
		if m.Kind != yaml.MappingNode {
			continue
		}
		for k := 0; k+1 < len(m.Content); k += 2 {
			key := m.Content[k].Value
			if key == "values" {
				// shorten the value list
				v := m.Content[k+1]
				if v.Kind == yaml.SequenceNode && len(v.Content) > 1 {
					cp := cloneNodes(insts)
					cp[i].Content[k+1].Content = cp[i].Content[k+1].Content[:1]
					enc(cp)
				}
				continue
			}
			cp := cloneNodes(insts)
			cp[i].Content = append(cp[i].Content[:k:k], cp[i].Content[k+2:]...)
			enc(cp)
		}
	}
	return out
}

func cloneNodes(xs []yaml.Node) []yaml.Node {
	b, _ := yaml.Marshal(xs)
	var out []yaml.Node
	_ = yaml.Unmarshal(b, &out)
	return out
}

func (p *C06) Shrinks(c *Case) []*Case {
	var out []*Case
	if len(c.Steps) > 2 {
		for i := 1; i < len(c.Steps); i++ {
			d := c.Clone()
			d.Steps = []Step{d.Steps[0], d.Steps[i]}
			out = append(out, d)
		}
	}
	if len(c.Steps) == 2 {
		// a single file can violate the end-of-track clauses on its own
		d := c.Clone()
		d.Steps = []Step{d.Steps[0]}
		out = append(out, d)
		// smaller N
		for _, n := range []string{"2", "3"} {
			if c.Steps[1].Note != n {
				d := c.Clone()
				d.Steps[1].Note = n
				for j, a := range d.Steps[1].Argv {
					if a == "--track" {
						d.Steps[1].Argv[j+1] = n
					}
				}
				out = append(out, d)
			}
		}
	}
	for i := range c.Steps {
		d := c.Clone()
		if NormalizeStep(&d.Steps[i]) {
			out = append(out, d)
		}
	}
	for _, fl := range []string{"--key", "--bpm"} {
		d := c.Clone()
		changed := false
		for i := range d.Steps {
			argv := d.Steps[i].Argv
			for j := 0; j+1 < len(argv); j++ {
				if argv[j] == fl {
					d.Steps[i].Argv = append(argv[:j:j], argv[j+2:]...)
					changed = true
					break
				}
			}
		}
		if changed {
			out = append(out, d)
		}
	}
	for _, b := range shrinkDoc(c.Steps[0].Stdin.Data) {
		d := c.Clone()
		for i := range d.Steps {
			d.Steps[i].Stdin.Data = b
		}
		out = append(out, d)
	}
	return out
}

func (p *C06) Extra() map[string]any { return nil }

func (p *C06) Rule() string {
	return "case = one instances document written with --track 1 and 2..3 other track counts from {2,3,4,5,16,32} and 2..64; oracle: merged (tick, event bytes) multiset equal to --track 1, all end-of-track events at one tick, that tick inside [sum of round(T*v)] computed with exact rationals; non-trivial/distinct as for C12 (track count is part of argv)"
}

func (p *C06) Assumptions() []string {
	return []string{
		"the harness's own SMF decoder (lenient mode) is trusted to read ticks and event bytes",
		"denominators are at most 7919 and at most three values per instance, so float rounding in crd cannot legally leave the allowed interval",
		"documents `write --track 1` refuses are only checked for the same refusal under every N",
	}
}
