package harness

import (
	"fmt"
	"sort"
	"strings"

	"gopkg.in/yaml.v3"

	"verif/sim/model"
	"verif/sim/simrt"
)

// C14 — circle-of-fifths laws for every key, chain and intermediate spelling.
// Oracle: mod-12 arithmetic on (pitch class, mode); the expected output is the
// set of all supported spellings of the resulting state. Which spelling of
// an intermediate result crd continues from is a map-order choice in the
// code; every case is run under several map-order schedules.
type C14 struct {
	stats      *Stats
	cases      []*Case
	exhaustLen int
	nExh, nRnd int
	laws       map[string]int
}

func NewC14(st *Stats) *C14 { return &C14{stats: st, laws: map[string]int{}} }

func (p *C14) ID() string    { return "C14" }
func (p *C14) Level() string { return "exploration" }

func isEnharmonicSlot(key, chain string) bool {
	s, ok := model.KeyStateOf(key)
	if !ok {
		return false
	}
	if len(s.Spellings()) > 1 {
		return true
	}
	for i := 0; i < len(chain); i++ {
		s, _ = s.Step(chain[i])
		if len(s.Spellings()) > 1 {
			return true
		}
	}
	return false
}

func (p *C14) mk(seed uint64, r *model.Rand, key, ch string, label string) {
	n := 2
	if isEnharmonicSlot(key, ch) {
		n = 4
	}
	c := &Case{Property: "C14", Kind: "chain", Seed: seed, Run: len(p.cases), Labels: []string{label}, Params: map[string]string{"key": key, "chain": ch}}
	pols := []string{"sorted", "reverse", "shuffle", "shuffle"}
	for i := 0; i < n; i++ {
		c.Steps = append(c.Steps, Step{Step: simrt.Step{Argv: []string{"info", "key", "conv", "--key", key, "-c", ch}, Seed: r.U64(), MapPolicy: pols[i]}})
	}
	p.cases = append(p.cases, c)
}

func (p *C14) Prepare(env *Env, tier string, seed uint64) error {
	// keys the tree itself lists as supported (beyond the 28 of the statement)
	r0, err := env.Exec(&Step{Step: simrt.Step{Argv: []string{"info", "key", "list"}}})
	if err != nil {
		return err
	}
	if r0.OK() {
		var scales []struct {
			Key string `yaml:"key"`
		}
		if err := yaml.Unmarshal(r0.Stdout, &scales); err == nil {
			model.ExtraKeys = nil
			for _, sc := range scales {
				if _, ok := model.KeyStateOf(sc.Key); ok {
					model.ExtraKeys = append(model.ExtraKeys, sc.Key)
				}
			}
		}
	}
	if tier == "replay" {
		return nil
	}
	p.exhaustLen = 4
	nRandom := 400
	if tier == "thorough" {
		p.exhaustLen = 6
		nRandom = 8000
	}
	r := model.NewRand(seed, "C14/gen")
	ops := "prds"
	var rec func(prefix string)
	var chains []string
	rec = func(prefix string) {
		if len(prefix) > 0 {
			chains = append(chains, prefix)
		}
		if len(prefix) == p.exhaustLen {
			return
		}
		for i := 0; i < 4; i++ {
			rec(prefix + string(ops[i]))
		}
	}
	rec("")
	for _, k := range model.AllKeys() {
		for _, ch := range chains {
			p.mk(seed, r, k, ch, "exhaustive")
			p.nExh++
		}
	}
	// long runs of one conversion from every key (ring wrap-around far beyond one lap)
	runLens := []int{13, 24, 25, 37}
	if tier == "thorough" {
		runLens = []int{13, 14, 17, 23, 24, 25, 26, 36, 37, 48, 49, 61}
	}
	for _, k := range model.AllKeys() {
		for _, n := range runLens {
			for _, op := range []string{"d", "s"} {
				p.mk(seed, r, k, strings.Repeat(op, n), "long-run")
				p.nRnd++
			}
		}
	}
	for i := 0; i < nRandom; i++ {
		var ch string
		switch r.Intn(4) {
		case 0:
			ch = strings.Repeat("d", 12) // twelve dominants
		case 1:
			ch = strings.Repeat("s", 12)
		case 2:
			// a few long runs joined by mode switches
			for len(ch) < 20+r.Intn(40) {
				ch += strings.Repeat(string("ds"[r.Intn(2)]), 1+r.Intn(30))
				if r.Chance(1, 2) {
					ch += string("pr"[r.Intn(2)])
				}
			}
		default:
			ch = chain(r, 64)
		}
		p.mk(seed, r, model.Pick(r, model.AllKeys()), ch, "random-long")
		p.nRnd++
	}
	return nil
}

func (p *C14) Runs(tier string) int                { return len(p.cases) }
func (p *C14) Generate(seed uint64, run int) *Case { return p.cases[run] }

func parseKeyLines(b []byte) []string {
	var ks []string
	for _, l := range strings.Split(string(b), "\n") {
		l = strings.TrimSpace(l)
		if l != "" {
			ks = append(ks, l)
		}
	}
	sort.Strings(ks)
	return ks
}

func (p *C14) Evaluate(env *Env, c *Case) (*Outcome, error) {
	out := &Outcome{Results: make([]*Result, len(c.Steps))}
	key, ch := c.Params["key"], c.Params["chain"]
	// the argv is the authority (shrinking edits it)
	for i, a := range c.Steps[0].Argv {
		if a == "--key" && i+1 < len(c.Steps[0].Argv) {
			key = c.Steps[0].Argv[i+1]
		}
		if a == "-c" && i+1 < len(c.Steps[0].Argv) {
			ch = c.Steps[0].Argv[i+1]
		}
	}
	want, ok := model.ChainResult(key, ch)
	if !ok {
		return nil, Infraf("C14: model cannot evaluate key %q chain %q", key, ch)
	}
	var sets []string
	for i := range c.Steps {
		r, err := env.Exec(&c.Steps[i])
		if err != nil {
			return nil, err
		}
		out.Results[i] = r
		desc := fmt.Sprintf("`crd info key conv --key %s -c %s` under map order %s/%d", key, ch, c.Steps[i].MapPolicy, c.Steps[i].Seed)
		if !produced(r) {
			out.Findings = append(out.Findings, Finding{Signature: "C14/command-failed",
				Detail: fmt.Sprintf("%s failed: exit=%d %s; expected %v", desc, r.Exit, first(r.Stderr, 200), want)})
			continue
		}
		got := parseKeyLines(r.Stdout)
		sets = append(sets, strings.Join(got, ","))
		if strings.Join(got, ",") == strings.Join(want, ",") {
			continue
		}
		kind := "wrong-key"
		wantSet := map[string]bool{}
		for _, w := range want {
			wantSet[w] = true
		}
		all := true
		for _, g := range got {
			if !wantSet[g] {
				all = false
			}
		}
		if all && len(got) < len(want) && len(got) > 0 {
			kind = "missing-spelling"
		} else if len(got) > 0 {
			// same pitch class and mode but an unsupported/extra spelling?
			same := true
			ws, _ := model.KeyStateOf(want[0])
			for _, g := range got {
				if gs, ok := model.KeyStateOf(g); !ok || gs != ws {
					same = false
				}
			}
			if same {
				kind = "extra-spelling"
			}
		}
		out.Findings = append(out.Findings, Finding{Signature: "C14/" + kind,
			Detail: fmt.Sprintf("%s printed %v, arithmetic gives %v", desc, got, want)})
	}
	for i := 1; i < len(sets); i++ {
		if sets[i] != sets[0] {
			out.Findings = append(out.Findings, Finding{Signature: "C14/schedule-dependent",
				Detail: fmt.Sprintf("`crd info key conv --key %s -c %s` prints {%s} under one map order and {%s} under another", key, ch, sets[0], sets[i])})
			break
		}
	}
	if len(out.Findings) == 0 {
		p.countLaws(key, ch)
	}
	return out, nil
}

// countLaws counts which consequences of the step semantics a passing case
// witnessed (reported in the evidence).
func (p *C14) countLaws(key, ch string) {
	p.stats.mu.Lock()
	defer p.stats.mu.Unlock()
	if strings.Contains(ch, "ds") || strings.Contains(ch, "sd") {
		p.laws["dominant/subdominant inverse inside a chain"]++
	}
	if strings.Contains(ch, "rr") {
		p.laws["relative involution inside a chain"]++
	}
	if strings.Contains(ch, "pp") {
		p.laws["parallel involution inside a chain"]++
	}
	if strings.Contains(ch, "dddddddddddd") || strings.Contains(ch, "ssssssssssss") {
		p.laws["twelve fifths return"]++
	}
	if isEnharmonicSlot(key, ch) {
		p.laws["chain through an enharmonic slot"]++
	}
	p.laws["composition equals stepwise arithmetic"]++
}

func (p *C14) Shrinks(c *Case) []*Case {
	var out []*Case
	set := func(d *Case, key, ch string) {
		for i := range d.Steps {
			d.Steps[i].Argv = []string{"info", "key", "conv", "--key", key, "-c", ch}
		}
		d.Params["key"], d.Params["chain"] = key, ch
	}
	key, ch := c.Params["key"], c.Params["chain"]
	if len(c.Steps) > 1 {
		for i := range c.Steps {
			d := c.Clone()
			d.Steps = []Step{d.Steps[i]}
			out = append(out, d)
		}
		if len(c.Steps) > 2 {
			for i := 1; i < len(c.Steps); i++ {
				d := c.Clone()
				d.Steps = []Step{d.Steps[0], d.Steps[i]}
				out = append(out, d)
			}
		}
	}
	if len(ch) > 1 {
		// drop the tail, drop the head (continuing from each spelling), drop one op
		d := c.Clone()
		set(d, key, ch[:len(ch)/2])
		out = append(out, d)
		d = c.Clone()
		set(d, key, ch[:len(ch)-1])
		out = append(out, d)
		if s, ok := model.KeyStateOf(key); ok {
			if n, ok := s.Step(ch[0]); ok {
				for _, sp := range n.Spellings() {
					d := c.Clone()
					set(d, sp, ch[1:])
					out = append(out, d)
				}
			}
		}
		for i := 0; i < len(ch) && i < 12; i++ {
			d := c.Clone()
			set(d, key, ch[:i]+ch[i+1:])
			out = append(out, d)
		}
	}
	for i := range c.Steps {
		if c.Steps[i].MapPolicy == "shuffle" {
			d := c.Clone()
			d.Steps[i].MapPolicy = "reverse"
			out = append(out, d)
		}
	}
	return out
}

func (p *C14) Extra() map[string]any {
	return map[string]any{
		"exhaustive":         true,
		"exhaustive_over":    fmt.Sprintf("28 keys x all chains over {p,r,d,s} of length 1..%d (%d cases), each under >= 2 map-order schedules (4 when the chain touches B/Cb, F#/Gb, C#/Db, D#m/Ebm)", p.exhaustLen, p.nExh),
		"random_long_chains": p.nRnd,
		"laws_witnessed":     p.laws,
	}
}

func (p *C14) Rule() string {
	return "case = (key, chain) executed as `crd info key conv` under 2..4 seeded map-iteration schedules (the choice of the intermediate enharmonic spelling is a map-order choice in the code); oracle = set of supported spellings of the state computed by mod-12 arithmetic; non-trivial = the journal shows a non-identity permutation at a map site; distinct = (argv, permutation hashes)"
}

func (p *C14) Assumptions() []string {
	return []string{
		"the supported keys are the 28 of the property statement plus any further key the tree's own `info key list` prints",
		"the order of the printed lines is ignored here (C12 decides it)",
	}
}
