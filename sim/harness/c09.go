package harness

import (
	"bytes"
	"fmt"
	"regexp"
	"strconv"
	"strings"
	"unicode/utf8"

	"verif/sim/model"
	"verif/sim/simrt"
)

// C09 — no crash, no hang, failures signalled, nonsense refused.
type C09 struct {
	w       Workload
	stats   *Stats
	cuts    []*Case // enumerated cases (truncation offsets, flag values; built in Prepare)
	nRand   int
	nflag   int
	ngrowth int
}

func NewC09(st *Stats) *C09 { return &C09{stats: st} }

func (p *C09) ID() string    { return "C09" }
func (p *C09) Level() string { return "exploration" }

func (p *C09) Prepare(env *Env, tier string, seed uint64) error {
	if err := p.w.Load(env); err != nil {
		return err
	}
	p.w.Edge = true
	nSent := 40
	p.nRand = 5000
	if tier == "thorough" {
		nSent = 1500
		p.nRand = 150000
	}
	if tier == "replay" {
		return nil
	}
	if tier == "thorough" {
		// tens of megabytes of input: millions of consecutive comment lines,
		// millions of chords, one enormous token
		huge := [][]byte{
			append(bytes.Repeat([]byte(";\n"), 20_000_000), []byte("C[1]\n")...),
			append(bytes.Repeat([]byte(" \n\t"), 10_000_000), []byte("C[1]\n")...),
			// (a single token of that size is not generated: ybase copies its token
			// buffer for every rune it reads, which is quadratic real time while the
			// logical clock stays far within budget; see DESIGN 13)
			// (items cost crd about 58 KB of memory and 0.2 ms each, linearly — yaml.v3
			// node trees —, so millions of items are a resource question, not a
			// termination question: 60000 items stay inside the address-space limit)
			append(bytes.Repeat([]byte("C[1] "), 60_000), '\n'),
		}
		for i, in := range huge {
			argv := []string{"text", "parse"}
			if i%2 == 1 {
				argv = []string{"text", "conv", "syllable"}
			}
			st := Step{Step: simrt.Step{Argv: argv, Seed: seed + uint64(i), Stdin: &simrt.Stream{Data: in, Plan: simrt.Plan{Chunks: []int{1 << 16}}}}}
			p.cuts = append(p.cuts, &Case{Property: "C09", Kind: "single", Seed: seed, Run: 1_000_000 + len(p.cuts), Steps: []Step{st},
				Labels: []string{"fault:F8:overlong", "tens-of-megabytes"}})
			p.nflag++
		}
	}
	// flag-value enumeration: every flag of every command with every value of
	// the list (the input is a small valid one, so the flag decides)
	p.enumFlags(seed)
	// the same command on n and 4n repetitions of a unit: growth of the logical clock
	p.growthCases(seed, tier)
	// a flag at its empty/zero default against the same command without it
	p.zeroDefaultCases(seed)
	// every structurally unusual (but valid or nearly valid) YAML document with every write command
	for _, raw := range yamlShapes {
		for _, cmd := range [][]string{{"write"}, {"write", "event"}, {"write", "parse"}, {"write", "conv", "-c", "cmt"}} {
			st := Step{Step: simrt.Step{Argv: append([]string{}, cmd...), Seed: seed + uint64(len(p.cuts)), Stdin: &simrt.Stream{Data: []byte(raw)}}}
			p.cuts = append(p.cuts, &Case{Property: "C09", Kind: "single", Seed: seed, Run: 1_000_000 + len(p.cuts), Steps: []Step{st},
				Labels: []string{"fault:F6:yaml-shape", "yaml-shape-enumeration"}})
			p.nflag++
		}
	}
	// two dictionary files whose names and display symbols cross (a faulty chord
	// in one file sits behind a name another file's display symbol also
	// claims): every combination, both file orders, four commands
	crossBad := []string{
		"- name: Twist\n  meta:\n    display: tw\n  extends: Twist\n",
		"- name: Twist\n  meta:\n    display: tw\n  extends: tw\n",
		"- name: Twist\n  meta:\n    display: tw\n  extends: tw\n  attributes:\n    - Augmented4\n",
		"- name: Twist\n  meta:\n    display: tw\n  extends: Nowhere\n",
		"- name: Twist\n  meta:\n    display: tw\n  attributes:\n    - NoSuchAttr\n",
		"- name: Twist\n  meta:\n    display: tw\n  extends: Other\n- name: Other\n  meta:\n    display: ot\n  extends: Twist\n",
	}
	crossGood := []string{
		"- name: Cover\n  meta:\n    display: Twist\n  attributes:\n    - Perfect1\n",
		"- name: tw\n  meta:\n    display: Twist\n  attributes:\n    - Perfect1\n",
		"- name: Cover\n  meta:\n    display: tw\n  attributes:\n    - Perfect1\n",
	}
	for _, bad := range crossBad {
		for _, good := range crossGood {
			for oi, order := range [][]string{{"/sim/one.yml", "/sim/two.yml"}, {"/sim/two.yml", "/sim/one.yml"}} {
				for _, nm := range []string{"Twist", "tw", "Cover"} {
					for ci := 0; ci < 3; ci++ {
						var argv []string
						var in []byte
						_ = oi
						switch ci {
						case 0:
							argv = []string{"info", "chord", "describe", "-t", "C_" + nm}
						case 1:
							argv = []string{"write", "event"}
							in = []byte("- chord:\n    degree: \"1\"\n    name: \"" + nm + "\"\n  values:\n    - \"1\"\n")
						default:
							argv = []string{"write"}
							in = []byte("- chord:\n    degree: \"1\"\n    name: \"" + nm + "\"\n  values:\n    - \"1\"\n")
						}
						argv = append(argv, "--chord", order[0], "--chord", order[1])
						st := Step{Step: simrt.Step{Argv: argv, Seed: seed + uint64(len(p.cuts)),
							Files: map[string]*simrt.FileSpec{"/sim/one.yml": {Data: []byte(bad)}, "/sim/two.yml": {Data: []byte(good)}}}}
						if in != nil {
							st.Stdin = &simrt.Stream{Data: in}
						}
						p.cuts = append(p.cuts, &Case{Property: "C09", Kind: "single", Seed: seed, Run: 1_000_000 + len(p.cuts), Steps: []Step{st},
							Labels: []string{"fault:F10:dictionary", "crossing-dictionaries"}})
						p.nflag++
					}
				}
			}
		}
	}
	// alias bombs: one anchored instance with k durations and m aliases of it.
	// yaml.v3 refuses "excessive aliasing" per decoder; whoever decodes must
	// not lose that protection
	bombs := [][2]int{{30, 20}, {300, 200}, {3000, 2000}, {30000, 20000}}
	for _, km := range bombs {
		doc := "- &a\n  chord:\n    degree: \"1\"\n    name: \"\"\n  values:\n" + strings.Repeat("    - \"1/4\"\n", km[0]) + strings.Repeat("- *a\n", km[1])
		for _, cmd := range [][]string{{"write", "parse"}, {"write"}, {"write", "conv", "-c", "cmt"}} {
			st := Step{Step: simrt.Step{Argv: append([]string{}, cmd...), Seed: seed + uint64(len(p.cuts)), Stdin: &simrt.Stream{Data: []byte(doc)}}}
			p.cuts = append(p.cuts, &Case{Property: "C09", Kind: "single", Seed: seed, Run: 1_000_000 + len(p.cuts), Steps: []Step{st},
				Labels: []string{"fault:F6:yaml-shape", "alias-bomb"}})
			p.nflag++
		}
	}
	// cut-point enumeration: every truncation offset of nSent sentences
	r := model.NewRand(seed, "C09/cuts")
	for i := 0; i < nSent; i++ {
		b := p.w.GenText(r, false)
		for k := 0; k < len(b.Input); k++ {
			st := b.StepOf(r.U64())
			st.Stdin.Data = append([]byte{}, b.Input[:k]...)
			if r.Chance(1, 3) {
				st.Stdin.Plan = GenPlan(r)
			}
			c := &Case{Property: "C09", Kind: "single", Seed: seed, Run: 1_000_000 + len(p.cuts), Steps: []Step{st},
				Labels: []string{"fault:F4:truncate", "cut-enumeration"}}
			p.cuts = append(p.cuts, c)
		}
	}
	return nil
}

func (p *C09) enumFlags(seed uint64) {
	r := model.NewRand(seed, "C09/flags")
	// the help paths of every command and group: -h, --help, `help <command>`
	for _, path := range [][]string{{}, {"text"}, {"text", "parse"}, {"text", "conv"}, {"text", "conv", "degree"}, {"text", "conv", "syllable"},
		{"write"}, {"write", "event"}, {"write", "parse"}, {"write", "conv"}, {"write", "play"}, {"info"}, {"info", "attr"}, {"info", "attr", "list"}, {"info", "attr", "describe"},
		{"info", "chord"}, {"info", "chord", "list"}, {"info", "chord", "describe"}, {"info", "key"}, {"info", "key", "list"}, {"info", "key", "describe"}, {"info", "key", "conv"},
		{"gen"}, {"gen", "attr"}, {"midi"}, {"midi", "port"}} {
		for _, form := range [][]string{append(append([]string{}, path...), "--help"), append(append([]string{}, path...), "-h"), append([]string{"help"}, path...),
			append(append([]string{"--debug"}, path...), "--help")} {
			st := Step{Step: simrt.Step{Argv: form, Seed: r.U64(), Stdin: &simrt.Stream{Data: []byte("C[1]\n")}}}
			p.cuts = append(p.cuts, &Case{Property: "C09", Kind: "single", Seed: seed, Run: 1_000_000 + len(p.cuts), Steps: []Step{st},
				Labels: []string{"fault:F11:flag:--help", "help-enumeration"}})
			p.nflag++
		}
	}
	text := "C[1] G_7/B[1,1/2]{txt=hi} Am[2]"
	dtext := "1[1] 5_7/7[1,1/2]{txt=hi} 6m[2]"
	doc := goodInst + "- chord:\n    degree: \"5\"\n    name: \"7\"\n    base: \"3\"\n  values:\n    - \"1\"\n    - \"1/2\"\n  meta:\n    txt: hi\n- values:\n    - \"2\"\n"
	type cmdSpec struct {
		argv  []string
		input string
	}
	cmds := []cmdSpec{
		{[]string{"text", "parse"}, text}, {[]string{"text", "conv", "syllable"}, text}, {[]string{"text", "conv", "degree"}, dtext},
		{[]string{"write"}, doc}, {[]string{"write", "event"}, doc}, {[]string{"write", "parse"}, doc}, {[]string{"write", "conv", "-c", "cmt"}, doc},
		{[]string{"info", "attr", "list"}, ""}, {[]string{"info", "attr", "describe", "-t", "Minor7", "-r", "C#"}, ""},
		{[]string{"info", "chord", "list"}, ""}, {[]string{"info", "chord", "describe", "-t", "C_7"}, ""},
		{[]string{"info", "key", "list"}, ""}, {[]string{"info", "key", "describe", "--key", "A"}, ""}, {[]string{"info", "key", "conv", "--key", "C", "-c", "ps"}, ""},
		{[]string{"info", "key", "conv", "--key", "B", "-c", "ps"}, ""}, {[]string{"info", "key", "conv", "--key", "D#m", "-c", "ps"}, ""},
		{[]string{"gen", "attr"}, ""},
	}
	values := append([]string{}, flagValues...)
	values = append(values, "32767", "32768", "40000", "128", "127", "-0", "00", "1.5", "1,2", "a,b", "cmt", "cmt,cmt", "ép", "p→d", "C#m", "Cb", "B#", "E♭", "c", "8/8", "3/0", "256/4", "4/256",
		"C#b", "Cb#", "C##", "Cbb", "C#b#", "Cx", "C♯", "C♭", "#", "b", "#C", "CC", "C#C",
		strings.Repeat("ds", 30)+"x", strings.Repeat("r", 60), strings.Repeat("d", 13)+"x", strings.Repeat("sd", 25)+"?", strings.Repeat("pr", 40),
		"65535", "131072", "196608", "4294967296", "9223372036854775807", "9223372036854775808", "18446744073709551615", "-9223372036854775808")
	for _, cs := range cmds {
		cmd := CommandOf(cs.argv)
		for _, f := range flagSpecs {
			if f.name == "--attr" || f.name == "--chord" || f.name == "-o" {
				continue
			}
			applies := false
			for _, c := range f.cmds {
				if strings.HasPrefix(cmd, c) {
					applies = true
				}
			}
			if !applies {
				continue
			}
			for _, v := range values {
				if f.name == "--track" {
					if n, err := strconv.Atoi(v); err == nil && n > 1000 && n <= 65535 && v != "32768" && v != "40000" {
						continue // legitimate but heavy (N^2 ticks); sampled elsewhere
					}
				}
				if f.name == "-d" {
					if n, err := strconv.Atoi(v); err == nil && n > 1500 {
						continue
					}
					if len(v) > 6 && v[0] >= '1' && v[0] <= '9' {
						continue
					}
				}
				argv := append([]string{}, cs.argv...)
				// replace an occurrence already there
				for j := 0; j+1 < len(argv); j++ {
					if argv[j] == f.name {
						argv = append(argv[:j:j], argv[j+2:]...)
						break
					}
				}
				argv = append(argv, f.name, v)
				st := Step{Step: simrt.Step{Argv: argv, Seed: r.U64()}}
				if cs.input != "" {
					st.Stdin = &simrt.Stream{Data: []byte(cs.input)}
				}
				p.cuts = append(p.cuts, &Case{Property: "C09", Kind: "single", Seed: seed, Run: 1_000_000 + len(p.cuts), Steps: []Step{st},
					Labels: []string{"fault:F11:flag:" + f.name, "flag-enumeration"}})
				p.nflag++
			}
		}
	}
}

func (p *C09) Runs(tier string) int { return p.nRand + len(p.cuts) }

// ---------------------------------------------------------------------------
// faults

func cutInsideToken(r *model.Rand, data []byte) int {
	s := string(data)
	if utf8.ValidString(s) {
		toks := model.TokenSpans(s)
		var multi []model.Tok
		for _, t := range toks {
			if t.End-t.Start >= 1 && (t.Kind == model.TSymbol || t.Kind == model.TMetadata || t.Kind == model.TNumber || t.End-t.Start > 1) {
				multi = append(multi, t)
			}
		}
		if len(multi) > 0 {
			t := model.Pick(r, multi)
			return t.Start + 1 + r.Intn(t.End-t.Start)
		}
	}
	return r.Intn(len(data) + 1)
}

func faultTruncate(r *model.Rand, data []byte, class string) []byte {
	if len(data) == 0 {
		return data
	}
	k := r.Intn(len(data))
	if class == "text" && r.Chance(1, 2) {
		k = cutInsideToken(r, data)
		if k > len(data) {
			k = len(data)
		}
	} else if class == "text" && r.Chance(1, 3) {
		// inside a comment
		if i := bytes.IndexByte(data, ';'); i >= 0 {
			k = i + 1 + r.Intn(3)
			if k > len(data) {
				k = len(data)
			}
		}
	}
	return append([]byte{}, data[:k]...)
}

func faultCorrupt(r *model.Rand, data []byte, class string) []byte {
	if len(data) == 0 {
		return []byte{byte(r.Intn(256))}
	}
	out := append([]byte{}, data...)
	structure := []byte("[]{}/_=,;")
	if class == "doc" {
		structure = []byte(":-\"'\n #[]{}&*!|>%@`")
	}
	pos := r.Intn(len(out))
	if r.Chance(1, 2) {
		// land on a structure byte
		var idx []int
		for i, b := range out {
			if bytes.IndexByte(structure, b) >= 0 {
				idx = append(idx, i)
			}
		}
		if len(idx) > 0 {
			pos = model.Pick(r, idx)
		}
	}
	switch r.Intn(8) {
	case 7:
		j := model.Pick(r, junkRunesC09)
		out = append(out[:pos], append([]byte(j), out[pos:]...)...)
	case 0:
		out[pos] ^= byte(1 << r.Intn(8))
	case 1:
		out = append(out[:pos], out[pos+1:]...)
	case 2:
		ins := structure[r.Intn(len(structure))]
		out = append(out[:pos], append([]byte{ins}, out[pos:]...)...)
	case 3:
		out = append(out[:pos], append([]byte{out[pos]}, out[pos:]...)...)
	case 4:
		out[pos] = structure[r.Intn(len(structure))]
	case 5:
		// duplicate or swap a word/line
		sep := []byte(" ")
		if class == "doc" {
			sep = []byte("\n")
		}
		parts := bytes.Split(out, sep)
		if len(parts) > 2 {
			i := r.Intn(len(parts) - 1)
			if r.Chance(1, 2) {
				parts[i], parts[i+1] = parts[i+1], parts[i]
			} else {
				parts = append(parts[:i+1], parts[i:]...)
			}
			out = bytes.Join(parts, sep)
		}
	case 6:
		out[pos] = byte(r.Intn(256))
	}
	return out
}

var junkRunesC09 = []string{"\x00", "\x1a", "\x1b", "ś", "į", "ş", "Ļ", "Ľ", "\ufeff", "\u200b", "\ufffd"}

var badUTF8 = [][]byte{{0xff}, {0xc0, 0xaf}, {0xed, 0xa0, 0x80}, {0x80}, {0xe2, 0x99}, {0xf4, 0x90, 0x80, 0x80}, {0xfe, 0xff}, {0x00}}

func faultBadUTF8(r *model.Rand, data []byte) []byte {
	pos := 0
	if len(data) > 0 {
		pos = r.Intn(len(data) + 1)
	}
	ins := model.Pick(r, badUTF8)
	if r.Chance(1, 3) {
		// a run of invalid bytes
		ins = bytes.Repeat(ins, 3+r.Intn(30))
	}
	out := append([]byte{}, data[:pos]...)
	out = append(out, ins...)
	out = append(out, data[pos:]...)
	if r.Chance(1, 4) {
		// and more of them elsewhere
		for k := 0; k < 2+r.Intn(8); k++ {
			q := r.Intn(len(out) + 1)
			out = append(out[:q:q], append(append([]byte{}, model.Pick(r, badUTF8)...), out[q:]...)...)
		}
	}
	return out
}

func faultOverlong(r *model.Rand, data []byte) []byte {
	if len(data) == 0 {
		data = []byte(" ")
	}
	target := model.Pick(r, []int{8 << 10, 32 << 10, 64 << 10})
	var out []byte
	for len(out) < target {
		out = append(out, data...)
		out = append(out, ' ')
	}
	return out
}

var flagValues = []string{"", "0", "-1", "1", "2", "255", "256", "65535", "65536", "70000", "2000000000", "99999999999999999999", "abc", "1/0", "0/0", "0/4", "4/0", "x/y", "♯", "\x01", "\xff\xfe", "G#", "H", "Cm#", "mC", " C", "C ", "p", "zzz", "prdsx", "日本", "1e3", "0x10", "+5", "--", "-", "4/4/4", "/", "C_7", "C;", "C{", "_", "Cm", "Perfect5", "nosuch"}

type flagSpec struct {
	name string
	cmds []string // command prefixes the flag exists on
}

var flagSpecs = []flagSpec{
	{"--bpm", []string{"write"}}, {"--velocity", []string{"write"}}, {"--meter", []string{"write"}}, {"--key", []string{"write", "text conv syllable", "info key"}},
	{"--track", []string{"write"}}, {"--instrument", []string{"write"}}, {"--program", []string{"write"}},
	{"-t", []string{"info attr describe", "info chord describe"}}, {"-r", []string{"info attr describe"}},
	{"-c", []string{"info key conv", "write conv"}}, {"-d", []string{"gen attr"}},
	{"--attr", nil}, {"--chord", nil}, {"-o", nil},
}

func faultFlag(r *model.Rand, b *Base) string {
	cmd := CommandOf(b.Argv)
	var cands []flagSpec
	for _, f := range flagSpecs {
		if f.cmds == nil {
			cands = append(cands, f)
			continue
		}
		for _, c := range f.cmds {
			if strings.HasPrefix(cmd, c) {
				cands = append(cands, f)
			}
		}
	}
	f := model.Pick(r, cands)
	v := model.Pick(r, flagValues)
	if r.Chance(1, 20) {
		v = strings.Repeat(model.Pick(r, []string{"A", "9", "♭", "x"}), 5000)
	}
	switch f.name {
	case "--track":
		// values the header, the writer and the reader treat differently;
		// counts between 65536 and 2e9 are kept out (refused anyway), and the
		// legitimate but heavy 32767/65535 (N^2 ticks) stay rare
		if r.Chance(1, 2) {
			v = model.Pick(r, []string{"0", "-1", "2", "3", "255", "256", "1000", "32768", "40000", "65536", "70000", "2000000000", "32767", "65535"})
		}
	case "-d":
		if len(v) > 4 && v[0] >= '1' && v[0] <= '9' {
			v = "1500"
		}
		if v == "65535" || v == "65536" || v == "70000" {
			v = "900"
		}
	case "-o":
		// an output path that cannot be created
		if b.Files == nil {
			b.Files = map[string]*simrt.FileSpec{}
		}
		path := "/sim/nodir/out.bin"
		b.Files[path] = &simrt.FileSpec{CreateErr: model.Pick(r, []string{"ENOENT", "EACCES", "EISDIR"})}
		v = path
	case "--attr", "--chord":
		v = dictFault(r, b, f.name == "--chord")
	}
	// remove an existing occurrence so that the faulty one decides
	for j := 0; j+1 < len(b.Argv); j++ {
		if b.Argv[j] == f.name {
			b.Argv = append(b.Argv[:j:j], b.Argv[j+2:]...)
			break
		}
	}
	b.Argv = append(b.Argv, f.name, v)
	return "fault:F11:flag:" + f.name
}

// dictFault installs a faulty dictionary file and returns its path.
func dictFault(r *model.Rand, b *Base, chord bool) string {
	if b.Files == nil {
		b.Files = map[string]*simrt.FileSpec{}
	}
	path := "/sim/userdict.yml"
	var data string
	switch r.Intn(10) {
	case 0:
		return "/sim/missing.yml" // ENOENT
	case 1:
		b.Files[path] = &simrt.FileSpec{OpenErr: "EACCES"}
		return path
	case 2:
		b.Files[path] = &simrt.FileSpec{OpenErr: "EISDIR"}
		return path
	case 3:
		data = model.Pick(r, []string{"\x00\x01garbage: [unclosed\n\t- x", "", "  \n\n", "# only a comment\n", "---\n", "[]\n", "null\n", "~\n", "---\n...\n", "- \n", "-\n", "{}\n", "\ufeff"})
	case 4: // dangling attribute
		data = "- name: Bad\n  meta:\n    display: bad\n  attributes:\n    - NoSuchAttribute\n"
	case 5: // dangling extends
		data = "- name: Bad\n  meta:\n    display: bad\n  extends: NoSuchChord\n"
	case 6: // cyclic extends
		if r.Chance(1, 2) {
			data = "- name: CycA\n  meta:\n    display: cyca\n  extends: CycB\n- name: CycB\n  meta:\n    display: cycb\n  extends: CycA\n"
		} else {
			data = "- name: Self\n  meta:\n    display: self\n  extends: Self\n"
		}
	case 7: // unnamed entry
		data = "- meta:\n    display: anon\n  attributes:\n    - Perfect1\n"
	case 8: // attribute-shaped garbage
		data = "- name: Odd\n  degree: \"xyz\"\n- name: \"\"\n  degree: \"1\"\n"
	case 9:
		data = "- name: 5\n  meta: 7\n  attributes: notalist\n  extends: [a]\n"
	}
	if !chord && r.Chance(1, 2) {
		data = model.Pick(r, []string{"- degree: \"1\"\n", "- name: Z\n  degree: \"0\"\n", "- name: Z\n  degree: \"b\"\n", "name: notalist\n", "- name: Z\n  degree: \"99999999999999999999\"\n"})
	}
	b.Files[path] = &simrt.FileSpec{Data: []byte(data)}
	return path
}

// genAttrUse: a user attribute whose degree sits at the edge of a range, and
// a command that has to compute with it.
func (p *C09) genAttrUse(r *model.Rand) Base {
	deg := model.Pick(r, append([]string{"9000000000000000000", "18446744073709551615", "b9223372036854775808", "#4611686018427387904", "1000000", "65536", "bb1", "##64", "0", "b0"}, model.EdgeInts...))
	attr := "- name: Far\n  degree: \"" + deg + "\"\n"
	chordY := "- name: FarChord\n  meta:\n    display: far\n  attributes:\n    - Perfect1\n    - Far\n"
	files := map[string]*simrt.FileSpec{"/sim/far-attr.yml": {Data: []byte(attr)}, "/sim/far-chord.yml": {Data: []byte(chordY)}}
	var b Base
	switch r.Intn(5) {
	case 0:
		b = Base{Argv: []string{"info", "attr", "describe", "-t", "Far", "-r", model.Pick(r, roots)}, Class: "info"}
		if r.Chance(1, 2) {
			b.Argv = append(b.Argv, "-s")
		}
	case 1:
		b = Base{Argv: []string{"info", "chord", "describe", "-t", "Cfar"}, Class: "info"}
	case 2:
		b = Base{Argv: []string{"info", "attr", "list"}, Class: "info"}
	default:
		cmd := model.Pick(r, [][]string{{"write"}, {"write", "event"}, {"write", "parse"}})
		doc := "- chord:\n    degree: \"1\"\n    name: \"far\"\n  values:\n    - \"1\"\n"
		b = Base{Argv: append([]string{}, cmd...), Input: []byte(doc), InputArg: true, Class: "doc"}
	}
	b.Files = files
	b.Argv = append(b.Argv, "--attr", "/sim/far-attr.yml", "--chord", "/sim/far-chord.yml")
	return b
}

// genDictUse draws a command that uses the entries of a faulty chord
// dictionary (inheritance chains that dangle or loop, odd shapes).
func (p *C09) genDictUse(r *model.Rand) (Base, string) {
	type dd struct {
		data  string
		names []string
	}
	dicts := []dd{
		{"- name: CycA\n  meta:\n    display: cyca\n  extends: CycB\n- name: CycB\n  meta:\n    display: cycb\n  extends: CycA\n", []string{"CycA", "cyca", "CycB", "cycb"}},
		{"- name: Self\n  meta:\n    display: self\n  extends: Self\n", []string{"Self", "self"}},
		{"- name: L1\n  meta:\n    display: l1\n  extends: L2\n- name: L2\n  meta:\n    display: l2\n  extends: L3\n- name: L3\n  meta:\n    display: l3\n  extends: L1\n  attributes:\n    - Perfect1\n", []string{"L1", "l2", "L3"}},
		{"- name: Deep\n  meta:\n    display: deep\n  extends: MinorSeventh\n  attributes:\n    - Major9\n- name: Deeper\n  meta:\n    display: deeper\n  extends: Deep\n", []string{"Deep", "deeper"}},
		{"- name: Over\n  meta:\n    display: m\n  attributes:\n    - Perfect1\n", []string{"Over", "m"}},
		{"- name: MajorTriad\n  meta:\n    display: \"\"\n  extends: MajorTriad\n", []string{"", "MajorTriad"}},
		{"- name: Dang\n  meta:\n    display: dang\n  extends: Nowhere\n", []string{"Dang", "dang"}},
		{"- name: NoAttr\n  meta:\n    display: noattr\n  attributes:\n    - Missing7\n", []string{"NoAttr", "noattr"}},
		{"- name: Empty\n  meta:\n    display: empty\n  attributes: []\n  extends: \"\"\n", []string{"Empty", "empty"}},
		{"- name: Dup\n  meta:\n    display: dup\n  attributes:\n    - Perfect1\n- name: Dup\n  meta:\n    display: dup\n  extends: Dup\n", []string{"Dup", "dup"}},
	}
	if r.Chance(1, 4) {
		return p.genAttrUse(r), ""
	}
	if r.Chance(1, 8) {
		// very many faulty entries at once (the diagnostic has hundreds of lines;
		// whatever is derived from their number must still mean "failed")
		n := model.Pick(r, []int{64, 128, 128, 256, 256, 512})
		var sb strings.Builder
		for i := 0; i < n; i++ {
			switch r.Intn(3) {
			case 0:
				fmt.Fprintf(&sb, "- name: Bad%d\n  meta:\n    display: bad%d\n  attributes:\n    - NoSuchAttribute\n", i, i)
			case 1:
				fmt.Fprintf(&sb, "- name: Bad%d\n  meta:\n    display: bad%d\n  extends: NoSuchChord\n", i, i)
			default:
				fmt.Fprintf(&sb, "- name: Bad%d\n  meta:\n    display: bad%d\n  extends: Bad%d\n", i, i, i)
			}
		}
		var b Base
		if r.Chance(1, 3) {
			b = Base{Argv: []string{"info", "chord", "describe", "-t", "Cbad0"}, Class: "info"}
		} else {
			cmd := model.Pick(r, [][]string{{"write"}, {"write", "event"}, {"write", "parse"}})
			b = Base{Argv: append([]string{}, cmd...), Input: []byte(goodInst), InputArg: true, Class: "doc"}
		}
		b.Files = map[string]*simrt.FileSpec{"/sim/manybad.yml": {Data: []byte(sb.String())}}
		b.Argv = append(b.Argv, "--chord", "/sim/manybad.yml")
		return b, "bad0"
	}
	if r.Chance(1, 5) {
		// a long, loop-free extends chain that is actually used
		depth := model.Pick(r, []int{20, 33, 47, 60, 200})
		var sb strings.Builder
		sb.WriteString("- name: D0\n  meta:\n    display: d0\n  attributes:\n    - Perfect1\n")
		for i := 1; i <= depth; i++ {
			fmt.Fprintf(&sb, "- name: D%d\n  meta:\n    display: d%d\n  extends: D%d\n", i, i, i-1)
			if i%7 == 0 {
				sb.WriteString("  attributes:\n    - Major3\n")
			}
		}
		top := fmt.Sprintf("d%d", depth)
		var b Base
		if r.Chance(1, 3) {
			b = Base{Argv: []string{"info", "chord", "describe", "-t", "C" + top}, Class: "info"}
		} else {
			cmd := model.Pick(r, [][]string{{"write"}, {"write", "event"}})
			b = Base{Argv: append([]string{}, cmd...), Input: []byte("- chord:\n    degree: \"1\"\n    name: \"" + top + "\"\n  values:\n    - \"1\"\n"), InputArg: true, Class: "doc"}
		}
		b.Files = map[string]*simrt.FileSpec{"/sim/deep.yml": {Data: []byte(sb.String())}}
		b.Argv = append(b.Argv, "--chord", "/sim/deep.yml")
		return b, top
	}
	if r.Chance(1, 5) {
		// two files whose names and display symbols cross: a faulty chord in one
		// file sits behind a name another file's display symbol also claims
		bad := model.Pick(r, []string{
			"- name: Twist\n  meta:\n    display: tw\n  extends: Twist\n",
			"- name: Twist\n  meta:\n    display: tw\n  extends: tw\n",
			"- name: Twist\n  meta:\n    display: tw\n  extends: tw\n  attributes:\n    - Augmented4\n",
			"- name: Twist\n  meta:\n    display: tw\n  extends: Nowhere\n",
			"- name: Twist\n  meta:\n    display: tw\n  attributes:\n    - NoSuchAttr\n",
			"- name: Twist\n  meta:\n    display: tw\n  extends: Other\n- name: Other\n  meta:\n    display: ot\n  extends: Twist\n",
		})
		good := model.Pick(r, []string{
			"- name: Cover\n  meta:\n    display: Twist\n  attributes:\n    - Perfect1\n",
			"- name: tw\n  meta:\n    display: Twist\n  attributes:\n    - Perfect1\n",
			"- name: Cover\n  meta:\n    display: tw\n  attributes:\n    - Perfect1\n",
		})
		nm := model.Pick(r, []string{"Twist", "tw", "Cover"})
		var b Base
		if r.Chance(1, 2) {
			b = Base{Argv: []string{"info", "chord", "describe", "-t", "C_" + nm}, Class: "info"}
		} else {
			cmd := model.Pick(r, [][]string{{"write"}, {"write", "event"}, {"info", "chord", "list"}})
			b = Base{Argv: append([]string{}, cmd...), Class: "info"}
			if cmd[0] == "write" {
				b.Input = []byte("- chord:\n    degree: \"1\"\n    name: \"" + nm + "\"\n  values:\n    - \"1\"\n")
				b.InputArg, b.Class = true, "doc"
			}
		}
		b.Files = map[string]*simrt.FileSpec{"/sim/one.yml": {Data: []byte(bad)}, "/sim/two.yml": {Data: []byte(good)}}
		if r.Chance(1, 2) {
			b.Argv = append(b.Argv, "--chord", "/sim/one.yml", "--chord", "/sim/two.yml")
		} else {
			b.Argv = append(b.Argv, "--chord", "/sim/two.yml", "--chord", "/sim/one.yml")
		}
		return b, nm
	}
	d := model.Pick(r, dicts)
	nm := model.Pick(r, d.names)
	path := "/sim/userdict.yml"
	var b Base
	switch r.Intn(4) {
	case 0:
		t := "C" + nm
		if nm != "" && (strings.ContainsRune("CDEFGABRb#0123456789", rune(nm[0]))) {
			t = "C_" + nm
		}
		b = Base{Argv: []string{"info", "chord", "describe", "-t", t}, Class: "info"}
	case 1:
		b = Base{Argv: []string{"info", "chord", "list"}, Class: "info"}
	default:
		cmd := model.Pick(r, [][]string{{"write"}, {"write", "event"}, {"write", "parse"}, {"write", "conv", "-c", "cmt"}})
		doc := "- chord:\n    degree: \"1\"\n    name: \"" + nm + "\"\n  values:\n    - \"1\"\n"
		if r.Chance(1, 2) {
			doc = goodInst + doc
		}
		b = Base{Argv: append([]string{}, cmd...), Input: []byte(doc), InputArg: true, Class: "doc"}
	}
	b.Files = map[string]*simrt.FileSpec{path: {Data: []byte(d.data), Plan: GenPlan(r)}}
	b.Argv = append(b.Argv, "--chord", path)
	return b, nm
}

// ---------------------------------------------------------------------------
// nonsense (clause 2 of the property)

type nonsense struct {
	class    string
	carrier  string // text|yaml|flag
	steps    []Step
	mustFail int // index of the step that has to fail
}

func textStep(mode string, key string, text string, seed uint64) Step {
	argv := []string{"text", "conv", mode}
	if key != "" {
		argv = append(argv, "--key", key)
	}
	return Step{Step: simrt.Step{Argv: argv, Seed: seed, Stdin: &simrt.Stream{Data: []byte(text)}}}
}

func writeStep(extra []string, yamlDoc string, seed uint64) Step {
	argv := append([]string{"write"}, extra...)
	st := Step{Step: simrt.Step{Argv: argv, Seed: seed}}
	st.Stdin = &simrt.Stream{Data: []byte(yamlDoc)}
	return st
}

const goodInst = "- chord:\n    degree: \"1\"\n    name: \"\"\n  values:\n    - \"1\"\n"

func (p *C09) genNonsense(r *model.Rand) (*nonsense, []string) {
	seed := r.U64()
	mode := model.Pick(r, []string{"syllable", "degree"})
	head := "C"
	other := "G_7"
	if mode == "degree" {
		head, other = "1", "5_7"
	}
	pre := ""
	if r.Chance(1, 2) {
		pre = other + "[1] "
	}
	if r.Chance(1, 6) {
		// a long valid piece before the nonsense: whatever is buffered or
		// streamed before the failure is detected must not reach stdout
		pre = strings.Repeat(other+"[1] "+head+"m[2]{txt=la la} ", 40+r.Intn(200))
	}
	post := ""
	if r.Chance(1, 2) {
		post = " " + head + "m[2]"
	}
	yamlPre := ""
	if r.Chance(1, 2) {
		yamlPre = goodInst
	}
	if r.Chance(1, 6) {
		yamlPre = strings.Repeat(goodInst, 40+r.Intn(200))
	}
	if r.Chance(1, 10) {
		// one physical line longer than common line buffers (64 KiB) before the
		// nonsense: what comes after a long line is still part of the input
		long := strings.Repeat("la ", 22000+r.Intn(3000))
		yamlPre = "- chord:\n    degree: \"1\"\n    name: \"\"\n  values:\n    - \"1\"\n  meta:\n    lic: \"" + long + "\"\n"
		pre = other + "[1] ;" + long + "\n"
	}
	yamlPost := ""
	if r.Chance(1, 2) {
		yamlPost = "- values:\n    - \"2\"\n"
	}
	wcmd := model.Pick(r, [][]string{{}, {"event"}})
	mk := func(class, carrier string, mustFail int, steps ...Step) (*nonsense, []string) {
		return &nonsense{class: class, carrier: carrier, steps: steps, mustFail: mustFail},
			[]string{"nonsense:" + class + ":" + carrier}
	}
	pipe := func(text string) (Step, Step) {
		a := textStep(mode, "", text, seed)
		b := writeStep(nil, "", seed+1)
		zero := 0
		b.StdinFrom = &zero
		return a, b
	}
	switch r.Intn(26) {
	case 25:
		// a user attribute that has a name and no usable degree: every command
		// that has to compute with it refuses (listing it is not computing)
		attr := model.Pick(r, []string{"- name: NoDeg\n", "- name: NoDeg\n  degree: ~\n", "- name: NoDeg\n  degre: \"3\"\n", "- name: NoDeg\n  degree: \"\"\n",
			"- name: NoDeg\n  meta:\n    display: nd\n  attributes:\n    - Perfect1\n", "- name: NoDeg\n  degree: []\n"})
		chordY := "- name: UsesIt\n  meta:\n    display: usesit\n  attributes:\n    - Perfect1\n    - NoDeg\n"
		files := map[string]*simrt.FileSpec{"/sim/nodeg-attr.yml": {Data: []byte(attr)}, "/sim/nodeg-chord.yml": {Data: []byte(chordY)}}
		var st Step
		switch r.Intn(3) {
		case 0:
			st = Step{Step: simrt.Step{Argv: []string{"info", "attr", "describe", "-t", "NoDeg", "-r", model.Pick(r, roots), "--attr", "/sim/nodeg-attr.yml"}, Seed: seed, Files: files}}
		case 1:
			st = Step{Step: simrt.Step{Argv: []string{"info", "chord", "describe", "-t", "Cusesit", "--attr", "/sim/nodeg-attr.yml", "--chord", "/sim/nodeg-chord.yml"}, Seed: seed, Files: files}}
		default:
			st = writeStep(append(wcmd, "--attr", "/sim/nodeg-attr.yml", "--chord", "/sim/nodeg-chord.yml"), yamlPre+"- chord:\n    degree: \"1\"\n    name: \"usesit\"\n  values:\n    - \"1\"\n"+yamlPost, seed)
			st.Files = files
		}
		return mk("attribute-without-degree", "dictionary", 0, st)
	case 24:
		// an unknown command letter among the conversions of `info key conv -c`
		// (the flag is --command there, too): it must not be skipped
		good := chain(r, 1+r.Intn(4))
		bad := model.Pick(r, []string{"x", "P", "D", "q", "1", " ", ",", "é", "ｐ", "-"})
		at := r.Intn(len(good) + 1)
		ch := good[:at] + bad + good[at:]
		return mk("unknown-conversion", "flag", 0, Step{Step: simrt.Step{Argv: []string{"info", "key", "conv", "--key", model.Pick(r, model.SupportedKeys), "-c", ch}, Seed: seed}})
	case 21:
		// a meter with a zero in it (op/meter.go is one of the validators the
		// property is anchored in)
		m := model.Pick(r, []string{"4/0", "3/0", "0/4", "0/0", "4/00", "7/0"})
		return mk("zero-meter", "text", 0, textStep(mode, "", pre+head+"[1]{mtr="+m+"}"+post, seed))
	case 22:
		m := model.Pick(r, []string{"4/0", "3/0", "0/4", "0/0", "4/00", "7/0"})
		inst := "- chord:\n    degree: \"1\"\n    name: \"\"\n  values:\n    - \"1\"\n  meter: \"" + m + "\"\n"
		if r.Chance(1, 2) {
			inst = "- values:\n    - \"1\"\n  meter: \"" + m + "\"\n"
			if yamlPre == "" && yamlPost == "" {
				yamlPost = goodInst
			}
		}
		return mk("zero-meter", "yaml", 0, writeStep(wcmd, yamlPre+inst+yamlPost, seed))
	case 23:
		m := model.Pick(r, []string{"4/0", "3/0", "0/4", "0/0", "7/0"})
		return mk("zero-meter", "flag", 0, writeStep(append(wcmd, "--meter", m), goodInst+yamlPost, seed))
	case 0:
		return mk("zero-duration", "text", 0, textStep(mode, "", pre+head+"["+model.Pick(r, []string{"0", "00", "0/4", "1,0"})+"]"+post, seed))
	case 1:
		return mk("zero-duration", "yaml", 0, writeStep(wcmd, yamlPre+"- chord:\n    degree: \"1\"\n    name: \"\"\n  values:\n    - \""+model.Pick(r, []string{"0", "0/4", "00"})+"\"\n"+yamlPost, seed))
	case 2:
		return mk("zero-denominator", "text", 0, textStep(mode, "", pre+head+"["+model.Pick(r, []string{"1/0", "3/00", "1,2/0", "0/0", "1,0/0", "00/0"})+"]"+post, seed))
	case 3:
		return mk("zero-denominator", "yaml", 0, writeStep(wcmd, yamlPre+"- values:\n    - \""+model.Pick(r, []string{"1/0", "0/0", "1/00", "1/2/0", "1/0/2", "3/0 ", "1/0x", "2/0/0"})+"\"\n"+goodInst+yamlPost, seed))
	case 4:
		return mk("no-durations", "yaml", 0, writeStep(wcmd, yamlPre+model.Pick(r, []string{"- chord:\n    degree: \"1\"\n    name: \"\"\n  values: []\n", "- chord:\n    degree: \"1\"\n    name: \"m\"\n", "- values: []\n", "- bpm: 120\n"})+yamlPost, seed))
	case 5:
		return mk("tempo-zero", "text", 0, textStep(mode, "", pre+head+"[1]{bpm="+model.Pick(r, []string{"0", "00"})+"}"+post, seed))
	case 6:
		return mk("tempo-zero", "yaml", 0, writeStep(wcmd, yamlPre+"- chord:\n    degree: \"1\"\n    name: \"\"\n  values:\n    - \"1\"\n  bpm: 0\n"+yamlPost, seed))
	case 7:
		return mk("unknown-dynamic", "text", 0, textStep(mode, "", pre+head+"[1]{vel="+model.Pick(r, []string{"fff", "loud", "P", "mezzo", "0", "~", "null", "Null", "NULL", "true", "[]", "mf ", "m f", "ｆ", "f f"})+"}"+post, seed))
	case 8:
		return mk("unknown-dynamic", "yaml", 0, writeStep(wcmd, yamlPre+"- values:\n    - \"1\"\n  velocity: "+model.Pick(r, []string{"fff", "loud", "PP", "\"~\"", "\"null\"", "\"\"", "F", "\"f \""})+"\n"+goodInst, seed))
	case 9:
		return mk("unknown-dynamic", "flag", 0, writeStep(append(wcmd, "--velocity", model.Pick(r, []string{"fff", "loud", "F"})), goodInst+yamlPost, seed))
	case 10:
		a, b := pipe(pre + head + p.unknownSym(r, []string{"foo", "_13x", "minor", "M", "Δ", "major7", "m77"}) + "[1]" + post)
		return mk("unknown-chord", "text", 1, a, b)
	case 11:
		return mk("unknown-chord", "yaml", 0, writeStep(wcmd, yamlPre+"- chord:\n    degree: \"1\"\n    name: \""+p.unknownSym(r, []string{"foo", "minor", "M", "7 ", "maj", "Minor Triad", "m 7"})+"\"\n  values:\n    - \"1\"\n"+yamlPost, seed))
	case 12:
		doc := goodInst + yamlPost
		switch r.Intn(4) {
		case 0:
			doc = "- values:\n    - \"1\"\n- values:\n    - \"2\"\n" // no chord at all
		case 1:
			doc = "- values:\n    - \"1\"\n" + goodInst // a rest first
		}
		st := writeStep([]string{"conv", "-c", model.Pick(r, []string{"zzz", "CMT", "cmt,zzz", "x", "zzz,cmt"})}, doc, seed)
		return mk("unknown-modifier", "flag", 0, st)
	case 13:
		k := model.Pick(r, model.UnsupportedKeys)
		if mode == "syllable" {
			return mk("unsupported-key", "text", 0, textStep(mode, "", pre+head+"[1]{key="+k+"}"+post, seed))
		}
		carrier := head
		if r.Chance(1, 3) {
			carrier = "R"
			if pre == "" && post == "" {
				post = " " + head + "[1]"
			}
		}
		a, b := pipe(pre + carrier + "[1]{key=" + k + "}" + post)
		return mk("unsupported-key", "text", -1, a, b) // either stage may refuse
	case 14:
		k := model.Pick(r, model.UnsupportedKeys)
		inst := "- chord:\n    degree: \"1\"\n    name: \"\"\n  values:\n    - \"1\"\n  key: \"" + k + "\"\n"
		if r.Chance(1, 2) {
			// the key arrives on a rest
			inst = "- values:\n    - \"1\"\n  key: \"" + k + "\"\n"
			if yamlPre == "" && yamlPost == "" {
				yamlPost = goodInst
			}
		}
		return mk("unsupported-key", "yaml", 0, writeStep(wcmd, yamlPre+inst+yamlPost, seed))
	case 15:
		k := model.Pick(r, model.UnsupportedKeys)
		switch r.Intn(4) {
		case 0:
			return mk("unsupported-key", "flag", 0, textStep("syllable", k, "C[1]", seed))
		case 1:
			doc := goodInst + yamlPost
			if r.Chance(1, 2) {
				doc = "- values:\n    - \"1\"\n" + goodInst // the piece starts with a rest
			}
			return mk("unsupported-key", "flag", 0, writeStep(append(wcmd, "--key", k), doc, seed))
		case 2:
			return mk("unsupported-key", "flag", 0, Step{Step: simrt.Step{Argv: []string{"info", "key", "describe", "--key", k}, Seed: seed}})
		default:
			return mk("unsupported-key", "flag", 0, Step{Step: simrt.Step{Argv: []string{"info", "key", "conv", "--key", k, "-c", chain(r, 3)}, Seed: seed}})
		}
	case 16:
		txt := model.Pick(r, []string{"C[1] 1[1]", "1[1] C[1]", "C/1[1]", "1/C[1]", "C[1] G[1] 5[1]", "2m[1] R[1] Dm[1]"})
		if r.Chance(1, 3) {
			// a long tail after the offending chord (more nodes than any buffer between stages holds)
			txt += " " + strings.Repeat(model.Pick(r, []string{"C[1] ", "1[1] ", "G_7/B[1,1/2]{txt=x} "}), 30+r.Intn(300))
		}
		if r.Chance(1, 6) {
			txt = strings.Repeat("C[1] ", 30+r.Intn(300)) + txt
		}
		return mk("mixed-notation", "text", 0, textStep(mode, "", txt, seed))
	case 17:
		txt := model.Pick(r, []string{"", " ", "\n", "; only a comment\n", "\t\n ; c\n"})
		cmd := model.Pick(r, [][]string{{"text", "parse"}, {"text", "conv", "degree"}, {"text", "conv", "syllable"}})
		if r.Chance(1, 4) {
			// nothing at all, from /dev/null (a character device, like a terminal)
			cmd = model.Pick(r, [][]string{{"text", "parse"}, {"text", "conv", "degree"}, {"text", "conv", "syllable"}, {"write"}, {"write", "event"}})
			return mk("empty-piece", "text", 0, Step{Step: simrt.Step{Argv: cmd, Seed: seed, Stdin: &simrt.Stream{Data: []byte{}, Kind: "chardev"}}})
		}
		return mk("empty-piece", "text", 0, Step{Step: simrt.Step{Argv: cmd, Seed: seed, Stdin: &simrt.Stream{Data: []byte(txt)}}})
	case 18:
		doc := model.Pick(r, []string{"", "[]\n", "# nothing\n", "---\n", "null\n", "~\n"})
		return mk("empty-piece", "yaml", 0, writeStep(wcmd, doc, seed))
	case 19:
		return mk("zero-duration", "text", 0, textStep(mode, "", pre+"R[0]"+post, seed))
	default:
		return mk("tempo-zero", "text", 0, textStep(mode, "", pre+"R[1]{bpm=0}"+post, seed))
	}
}

// unknownSym picks a chord symbol the tree's dictionary does not know.
func (p *C09) unknownSym(r *model.Rand, cands []string) string {
	for i := 0; i < 50; i++ {
		s := model.Pick(r, cands)
		known := false
		for _, n := range p.w.ChordNames {
			if n == s || "_"+n == s {
				known = true
			}
		}
		if !known {
			return s
		}
	}
	return "nosuchchordsymbol"
}

// ---------------------------------------------------------------------------

func (p *C09) Generate(seed uint64, run int) *Case {
	if run >= p.nRand {
		return p.cuts[run-p.nRand]
	}
	r := model.NewRand(seed, fmt.Sprintf("C09/%d", run))
	c := &Case{Property: "C09", Kind: "single", Seed: seed, Run: run}
	if r.Chance(1, 4) {
		ns, labels := p.genNonsense(r)
		c.Kind = "nonsense"
		c.Labels = labels
		c.Steps = ns.steps
		c.Params = map[string]string{"must_fail": fmt.Sprint(ns.mustFail), "class": ns.class, "carrier": ns.carrier}
		if r.Chance(1, 3) {
			for i := range c.Steps {
				if c.Steps[i].Stdin != nil {
					c.Steps[i].Stdin.Plan = GenPlan(r)
				}
				c.Steps[i].MapPolicy = model.Pick(r, mapPolicies)
				c.Steps[i].SchedPolicy = model.Pick(r, schedPolicies)
			}
		}
		return c
	}
	var b Base
	switch r.Intn(23) {
	case 22:
		// long rests that carry metadata, then a chord, on several tracks: each
		// delta is legal on the conductor track, their sum is not on a note track
		v := model.Pick(r, []string{"200000", "150000", "279620", "100000"})
		n := 2 + r.Intn(3)
		var doc strings.Builder
		for i := 0; i < n; i++ {
			fmt.Fprintf(&doc, "- values:\n    - \"%s\"\n  meta:\n    txt: part %d\n", v, i)
		}
		doc.WriteString(goodInst)
		cmd := model.Pick(r, [][]string{{"write"}, {"write", "event"}})
		b = Base{Argv: append(append([]string{}, cmd...), "--track", model.Pick(r, []string{"2", "3", "4", "17"})), Input: []byte(doc.String()), InputArg: true, Class: "doc"}
		c.Labels = append(c.Labels, "fault:F8:overlong", "delta-edge")
	case 0, 1, 2, 3, 4, 5, 6:
		b = p.w.GenText(r, r.Chance(1, 50))
	case 7, 8, 9, 10, 11, 12, 13:
		b = p.w.GenDocCmd(r, r.Chance(1, 50))
	case 14, 15, 16, 17:
		b = p.w.GenInfo(r)
	case 18:
		// chord describe with arbitrary targets (goes through the text parser)
		t := model.Pick(r, []string{"C", "Cm", "C_7", "C;", "C_", "C{", "C[", "", "H", "Cm7/", "C/E", "R", "C]", "C#", "C♭m", "1", "C C", "C;x\n", "C{a", "C_7;", "Cm{txt=a"})
		b = Base{Argv: []string{"info", "chord", "describe", "-t", t}, Class: "info"}
		c.Labels = append(c.Labels, "fault:F11:flag:-t")
	case 19, 21:
		// a faulty chord dictionary whose entries the command actually uses
		b, _ = p.genDictUse(r)
		c.Labels = append(c.Labels, "fault:F10:dictionary")
	default:
		b = p.w.GenInfo(r)
		p.w.WithDict(r, &b)
	}
	// faults: a quarter none, half one, a quarter two or more
	nf := []int{0, 1, 1, 2}[r.Intn(4)]
	if _, ok := c.HasLabel("fault:F10:dictionary"); ok {
		nf = 0
	}
	readErrAt := -1
	if nf == 2 && r.Chance(1, 2) {
		nf = 3
	}
	for i := 0; i < nf; i++ {
		kinds := []string{"flag", "flag", "fs"}
		if b.Input != nil {
			kinds = append(kinds, "truncate", "truncate", "corrupt", "corrupt", "badutf8", "overlong", "inpath", "readerr")
		}
		switch model.Pick(r, kinds) {
		case "truncate":
			b.Input = faultTruncate(r, b.Input, b.Class)
			c.Labels = append(c.Labels, "fault:F4:truncate")
		case "corrupt":
			n := 1 + r.Intn(3)
			for j := 0; j < n; j++ {
				b.Input = faultCorrupt(r, b.Input, b.Class)
			}
			c.Labels = append(c.Labels, "fault:F6:corrupt")
		case "readerr":
			readErrAt = r.Intn(len(b.Input) + 1)
			if b.Class == "text" && len(b.Input) > 0 && r.Chance(1, 2) {
				readErrAt = cutInsideToken(r, b.Input)
				if readErrAt > len(b.Input) {
					readErrAt = len(b.Input)
				}
			}
			c.Labels = append(c.Labels, "fault:F5:read-error")
		case "badutf8":
			b.Input = faultBadUTF8(r, b.Input)
			c.Labels = append(c.Labels, "fault:F7:bad-utf8")
		case "overlong":
			if len(b.Input) < 4096 {
				b.Input = faultOverlong(r, b.Input)
				c.Labels = append(c.Labels, "fault:F8:overlong")
			}
		case "flag":
			c.Labels = append(c.Labels, faultFlag(r, &b))
		case "fs":
			c.Labels = append(c.Labels, "fault:F10:dictionary")
			chordDict := r.Chance(1, 2)
			path := dictFault(r, &b, chordDict)
			if chordDict {
				b.Argv = append(b.Argv, "--chord", path)
				if b.Class == "doc" && r.Chance(2, 3) {
					nm := model.Pick(r, []string{"cyca", "CycB", "self", "Self", "bad", "anon", "Bad"})
					if f, ok := b.Files[path]; ok {
						switch {
						case bytes.Contains(f.Data, []byte("CycA")):
							nm = model.Pick(r, []string{"cyca", "CycB", "CycA", "cycb"})
						case bytes.Contains(f.Data, []byte("Self")):
							nm = model.Pick(r, []string{"self", "Self"})
						case bytes.Contains(f.Data, []byte("Bad")):
							nm = model.Pick(r, []string{"bad", "Bad"})
						}
					}
					b.Input = append(b.Input, []byte("- chord:\n    degree: \"1\"\n    name: \""+nm+"\"\n  values:\n    - \"1\"\n")...)
				}
				if b.Class == "info" && r.Chance(1, 2) {
					b.Argv = []string{"info", "chord", "describe", "-t", "C" + model.Pick(r, []string{"cyca", "self", "bad", "anon"}), "--chord", path}
				}
			} else {
				b.Argv = append(b.Argv, "--attr", path)
			}
		case "inpath":
			// FILE argument that is missing / unreadable / a directory / present
			if b.Files == nil {
				b.Files = map[string]*simrt.FileSpec{}
			}
			switch r.Intn(4) {
			case 0:
				b.Argv = append(b.Argv, "/sim/missing.txt")
			case 1:
				b.Files[inPath] = &simrt.FileSpec{OpenErr: "EACCES"}
				b.Argv = append(b.Argv, inPath)
			case 2:
				b.Files[inPath] = &simrt.FileSpec{OpenErr: "EISDIR"}
				b.Argv = append(b.Argv, inPath)
			default:
				b.Files[inPath] = &simrt.FileSpec{Data: b.Input, Plan: GenPlan(r)}
				b.Argv = append(b.Argv, inPath, "/sim/second.txt")
			}
			c.Labels = append(c.Labels, "fault:F10:input-file")
		}
	}
	st := b.StepOf(r.U64())
	if r.Chance(3, 4) || readErrAt >= 0 {
		if st.Stdin != nil {
			st.Stdin.Plan = GenPlan(r)
			if readErrAt >= 0 {
				if readErrAt > len(st.Stdin.Data) {
					readErrAt = len(st.Stdin.Data)
				}
				st.Stdin.Plan.ErrNo = model.Pick(r, []string{"EIO", "EIO", "EISDIR", "EACCES"})
				st.Stdin.Plan.ErrAfter = readErrAt
			}
		}
		st.MapPolicy = model.Pick(r, mapPolicies)
		st.SchedPolicy = model.Pick(r, schedPolicies)
	}
	if r.Chance(1, 10) {
		st.Argv = append([]string{"--debug"}, st.Argv...)
	}
	if st.Stdin != nil && readErrAt < 0 && r.Chance(1, 12) {
		// standard input is a regular file whose beginning somebody else has
		// already consumed: fstat reports more bytes than will ever arrive
		hdr := []byte("# a header line that another reader has already consumed\n")
		st.Stdin.Data = append(hdr, st.Stdin.Data...)
		st.Stdin.Kind = "file"
		st.Stdin.Offset = len(hdr)
		c.Labels = append(c.Labels, "input:redirect-offset")
	}
	if r.Chance(1, 10) {
		// the destination of the result fills up (or breaks) after some bytes
		wp := &simrt.WritePlan{ErrNo: model.Pick(r, []string{"ENOSPC", "ENOSPC", "EIO"}), ErrAfter: model.Pick(r, []int{0, 0, 1, 7, 64, 300, 4096, 65536})}
		if oi := outArg(st.Argv); oi != "" || r.Chance(1, 2) {
			if oi == "" {
				oi = "/sim/full/out.bin"
				st.Argv = append(st.Argv, "-o", oi)
			}
			if st.Files == nil {
				st.Files = map[string]*simrt.FileSpec{}
			}
			if fsp := st.Files[oi]; fsp != nil {
				fsp.WritePlan = wp
			} else {
				st.Files[oi] = &simrt.FileSpec{WritePlan: wp}
			}
		} else {
			st.Stdout = wp
		}
		c.Labels = append(c.Labels, "fault:F14:write-error")
	}
	c.Steps = []Step{st}
	return c
}

func writeLimit(st *Step) int {
	if st.Stdout != nil {
		return st.Stdout.ErrAfter
	}
	if f := st.Files[outArg(st.Argv)]; f != nil && f.WritePlan != nil {
		return f.WritePlan.ErrAfter
	}
	return -1
}

var frameRE = regexp.MustCompile(`(?m)^(?:github\.com/berquerant/crd/)?((?:[a-z0-9_]+/)*[a-z0-9_]+)\.([A-Za-z0-9_.()*\[\]]+)\(`)

func crashFrame(stderr []byte) string {
	for _, m := range frameRE.FindAllSubmatch(stderr, -1) {
		fn := string(m[1]) + "." + string(m[2])
		if strings.HasPrefix(fn, "logx.") || strings.HasPrefix(fn, "simrt.") || strings.HasPrefix(fn, "runtime.") || strings.HasPrefix(fn, "main.main") || strings.HasPrefix(fn, "main.crdMain") {
			continue
		}
		switch strings.SplitN(fn, ".", 2)[0] {
		case "main", "astconv", "chord", "desc", "errorx", "input", "input/ast", "midix", "note", "op", "play", "util":
		default:
			continue
		}
		// closures of package-level command values: main.init.func12 / main.glob..func3
		if i := strings.Index(fn, ".func"); i > 0 {
			fn = fn[:i] + ".func"
		}
		fn = strings.ReplaceAll(fn, "(*", "")
		fn = strings.ReplaceAll(fn, ")", "")
		fn = strings.ReplaceAll(fn, "[...]", "")
		return fn
	}
	return "unknown-frame"
}

func hasDebug(argv []string) bool {
	for _, a := range argv {
		if a == "--debug" {
			return true
		}
	}
	return false
}

func textTrigger(st *Step) string {
	if st.Stdin == nil {
		return "no-input"
	}
	cmd := CommandOf(st.Argv)
	if !strings.HasPrefix(cmd, "text") {
		return "input"
	}
	s := string(st.Stdin.Data)
	if !utf8.ValidString(s) {
		return "invalid-utf8"
	}
	pr := model.Recognise(s)
	if pr.EndedIn != "" {
		return "eof-inside-" + pr.EndedIn
	}
	return "eof-between-tokens"
}

// checkProcess applies clauses (a), (b), (c) to one observed process.
func checkProcess(st *Step, r *Result) []Finding {
	cmd := CommandOf(st.Argv)
	var fs []Finding
	if h := r.Hang(); h != "" {
		trig := textTrigger(st)
		if cmd == "info chord describe" {
			trig = "target"
		}
		fs = append(fs, Finding{
			Signature: fmt.Sprintf("C09/hang/%s/%s/%s", h, trig, cmd),
			Detail:    fmt.Sprintf("`crd %s` did not terminate: %s after %d ticks (budget %d, stage %d); input %q", strings.Join(st.Argv, " "), h, ticksOf(r), r.Budget, r.Stage, inputExcerpt(st)),
		})
		return fs
	}
	if cr := r.Crash(); cr != "" {
		fs = append(fs, Finding{
			Signature: fmt.Sprintf("C09/crash/%s/%s/%s", cr, crashFrame(r.Stderr), cmd),
			Detail:    fmt.Sprintf("`crd %s` crashed (%s, exit %d): %s; input %q", strings.Join(st.Argv, " "), cr, r.Exit, first(r.Stderr, 300), inputExcerpt(st)),
		})
		return fs
	}
	writeFault := ""
	if r.Journal != nil {
		for _, f := range r.Journal.Faults {
			if strings.HasPrefix(f, "write:") {
				writeFault = f
			}
		}
	}
	if r.Exit == 0 && writeFault != "" {
		fs = append(fs, Finding{Signature: "C09/contract/success-despite-write-error/" + cmd,
			Detail: fmt.Sprintf("`crd %s` exited 0 although writing its result failed (%s; destination full after %d bytes): the result is incomplete and nothing says so; stderr %q", strings.Join(st.Argv, " "), writeFault, writeLimit(st), first(r.Stderr, 120))})
		return fs
	}
	if r.Exit == 0 && r.Journal != nil {
		for _, f := range r.Journal.Faults {
			if strings.HasPrefix(f, "read:") {
				fs = append(fs, Finding{Signature: "C09/contract/success-despite-read-error/" + cmd,
					Detail: fmt.Sprintf("`crd %s` exited 0 although reading its input failed (%s): whatever followed the error was dropped silently; stdout %q", strings.Join(st.Argv, " "), f, first(r.Stdout, 120))})
				break
			}
		}
	}
	if r.Exit != 0 {
		if len(bytes.TrimSpace(r.Stderr)) == 0 {
			fs = append(fs, Finding{Signature: "C09/contract/nonzero-exit-without-diagnostic/" + cmd,
				Detail: fmt.Sprintf("`crd %s` exit %d with empty stderr", strings.Join(st.Argv, " "), r.Exit)})
		}
		// (after a write fault the bytes that fitted before the destination
		// filled up are there; nothing else is relaxed)
		if len(r.Stdout) > 0 && !hasDebug(st.Argv) && writeFault == "" {
			fs = append(fs, Finding{Signature: "C09/contract/result-on-stdout-of-failed-command/" + cmd,
				Detail: fmt.Sprintf("`crd %s` exit %d but stdout has %d bytes: %q", strings.Join(st.Argv, " "), r.Exit, len(r.Stdout), first(r.Stdout, 120))})
		}
	} else {
		// a command that succeeds produces its result: on stdout, or in the -o file
		if oi := outArg(st.Argv); oi != "" {
			if _, ok := r.Created[oi]; !ok && !bytes.Contains(r.Stderr, []byte(`"level":"ERROR"`)) {
				fs = append(fs, Finding{Signature: "C09/contract/success-without-result/" + cmd,
					Detail: fmt.Sprintf("`crd %s` exited 0 but did not write %s (stdout %d bytes, stderr %q)", strings.Join(st.Argv, " "), oi, len(r.Stdout), first(r.Stderr, 120))})
			}
		} else if len(r.Stdout) == 0 && !bytes.Contains(r.Stderr, []byte(`"level":"ERROR"`)) && dataProducing(cmd) {
			fs = append(fs, Finding{Signature: "C09/contract/success-without-result/" + cmd,
				Detail: fmt.Sprintf("`crd %s` exited 0 and printed nothing at all (stderr %q)", strings.Join(st.Argv, " "), first(r.Stderr, 120))})
		}
		// exit 0 with no result anywhere and an ERROR-level diagnostic: the
		// command failed without signalling it
		if bytes.Contains(r.Stderr, []byte(`"level":"ERROR"`)) {
			if len(r.Stdout) == 0 && len(r.Created) == 0 {
				fs = append(fs, Finding{Signature: "C09/contract/failure-with-exit-0/" + cmd,
					Detail: fmt.Sprintf("`crd %s` logged an error (%s), produced no result, and exited 0", strings.Join(st.Argv, " "), first(r.Stderr, 200))})
			} else {
				fs = append(fs, Finding{Signature: "C09/contract/error-reported-but-exit-0/" + cmd,
					Detail: fmt.Sprintf("`crd %s` reported an error on stderr (%s) but exited 0 and printed a result: a failure that is not signalled", strings.Join(st.Argv, " "), first(r.Stderr, 200))})
			}
		}
	}
	return fs
}

// outArg returns the value of -o/--output ("" when absent or empty).
func outArg(argv []string) string {
	v := ""
	for i := 0; i+1 < len(argv); i++ {
		if argv[i] == "-o" || argv[i] == "--output" {
			v = argv[i+1]
		}
	}
	return v
}

// dataProducing: commands that print a result whenever they succeed.
func dataProducing(cmd string) bool {
	switch cmd {
	case "text parse", "text conv degree", "text conv syllable", "write", "write event", "write parse", "write conv", "gen attr":
		return true
	}
	return strings.HasPrefix(cmd, "info attr ") || strings.HasPrefix(cmd, "info chord ") || strings.HasPrefix(cmd, "info key ")
}

func ticksOf(r *Result) int64 {
	if r.Journal != nil {
		return r.Journal.Ticks
	}
	return -1
}

func inputExcerpt(st *Step) string {
	if st.Stdin == nil {
		return ""
	}
	return first(st.Stdin.Data, 200)
}

func (p *C09) Evaluate(env *Env, c *Case) (*Outcome, error) {
	out := &Outcome{Results: make([]*Result, len(c.Steps))}
	for i := range c.Steps {
		st := c.Steps[i]
		if st.StdinFrom != nil {
			prev := out.Results[*st.StdinFrom]
			if prev == nil || !prev.OK() {
				// upstream refused: downstream never runs
				continue
			}
			plan := simrt.Plan{}
			if st.Stdin != nil {
				plan = st.Stdin.Plan
			}
			st.Stdin = &simrt.Stream{Data: prev.Stdout, Plan: plan}
		}
		r, err := env.Exec(&st)
		if err != nil {
			return nil, err
		}
		out.Results[i] = r
		out.Findings = append(out.Findings, checkProcess(&st, r)...)
	}
	if c.Kind == "growth" {
		out.Findings = append(out.Findings, growthFindings(c, out)...)
	}
	if c.Kind == "zerodefault" {
		out.Findings = append(out.Findings, zeroDefaultFindings(c, out)...)
	}
	if c.Kind == "nonsense" {
		class, carrier := c.Params["class"], c.Params["carrier"]
		mf := 0
		fmt.Sscanf(c.Params["must_fail"], "%d", &mf)
		refused := false
		var where string
		if mf >= 0 {
			r := out.Results[mf]
			if r == nil {
				// an earlier stage already refused
				refused = true
			} else {
				refused = !r.OK()
				where = CommandOf(c.Steps[mf].Argv)
			}
		} else {
			for i, r := range out.Results {
				if r == nil || !r.OK() {
					refused = true
				}
				where = CommandOf(c.Steps[i].Argv)
			}
		}
		if !refused {
			out.Findings = append(out.Findings, Finding{
				Signature: fmt.Sprintf("C09/nonsense-accepted/%s/%s/%s", class, carrier, where),
				Detail:    fmt.Sprintf("%s arriving as %s was not refused by `crd %s`: %s", class, carrier, where, describeSteps(c, out)),
			})
		}
		for i, r := range out.Results {
			if r == nil {
				continue
			}
			if model.LooksLikeSMF(r.Stdout) {
				out.Findings = append(out.Findings, Finding{
					Signature: fmt.Sprintf("C09/nonsense-reached-midi/%s/%s", class, carrier),
					Detail:    fmt.Sprintf("%s arriving as %s ended up in a MIDI file written by step %d: %s", class, carrier, i, describeSteps(c, out)),
				})
			}
		}
	}
	return out, nil
}

func describeSteps(c *Case, out *Outcome) string {
	var sb strings.Builder
	for i, st := range c.Steps {
		fmt.Fprintf(&sb, "[%d] crd %s", i, strings.Join(st.Argv, " "))
		if st.Stdin != nil {
			fmt.Fprintf(&sb, " <<< %q", first(st.Stdin.Data, 120))
		}
		if r := out.Results[i]; r != nil {
			fmt.Fprintf(&sb, " => exit %d, %d bytes stdout, stderr %q; ", r.Exit, len(r.Stdout), first(r.Stderr, 120))
		} else {
			sb.WriteString(" => not run; ")
		}
	}
	return sb.String()
}

func (p *C09) Shrinks(c *Case) []*Case {
	var out []*Case
	for i := range c.Steps {
		d := c.Clone()
		if NormalizeStep(&d.Steps[i]) {
			out = append(out, d)
		}
	}
	for i := range c.Steps {
		if hasDebug(c.Steps[i].Argv) {
			d := c.Clone()
			var a []string
			for _, x := range d.Steps[i].Argv {
				if x != "--debug" {
					a = append(a, x)
				}
			}
			d.Steps[i].Argv = a
			out = append(out, d)
		}
	}
	if c.Kind == "growth" || c.Kind == "zerodefault" {
		// judged by the relation between its two steps: not shrunk further
		return out
	}
	if c.Kind != "nonsense" {
		out = append(out, dropFlagCandidates(c)...)
	}
	for i := range c.Steps {
		if c.Steps[i].Stdin == nil || c.Steps[i].StdinFrom != nil || c.Kind == "nonsense" {
			// a nonsense case is judged by its label: its input must stay what the label says
			continue
		}
		for _, b := range ShrinkBytes(c.Steps[i].Stdin.Data) {
			d := c.Clone()
			d.Steps[i].Stdin.Data = b
			out = append(out, d)
		}
	}
	return out
}

func (p *C09) Extra() map[string]any {
	return map[string]any{"cut_points_enumerated": len(p.cuts) - p.nflag - p.ngrowth, "flag_values_enumerated": p.nflag, "growth_comparisons": p.ngrowth}
}

func (p *C09) Rule() string {
	return "cases: (1) one command with generated input and 0..3 faults (truncate inside/between tokens, corrupt bytes/tokens/lines, invalid UTF-8, over-long input, arbitrary flag values, faulty dictionary or input files, uncreatable -o, a destination that fills up after k bytes), under random delivery plan/map order/schedule; (2) labelled musical nonsense of the classes of the property (and zero meters) carried by text metadata, YAML field or flag, as single command or `text conv | write` pipeline; (3) every truncation offset of generated sentences; (4) every flag with every value of a list; (5) growth comparisons: the same command on n and 4n repetitions of a unit, logical clocks compared; non-trivial = a fault or nonsense label is present or the journal shows a non-identity choice; distinct as for C12 plus the fault/nonsense labels"
}

func (p *C09) Assumptions() []string {
	return []string{
		"termination is judged by the logical clock: budget 2e7 + 100*bytes (+ track-count and max-degree terms) ticks, measured cost is about 10 ticks per byte; eof-spin = more than 10000 reads after EOF; a 300 s wall-clock backstop",
		"a mid-stream read error (EIO and friends) and a destination that fills up or breaks after k bytes (stdout as crd names it, -o file) are injected and must not end in exit 0; errors of Close, EPIPE and errors on stderr are not injected",
		"'promptly' is judged on the logical clock of crd's own code (budget and growth ratio n vs 4n <= 9); real time spent inside dependencies is not judged below the 300 s backstop",
		"crd write play / crd midi port are not exercised",
		"--track between 70001 and 2e9-1 and gen attr -d above 1500 are not generated (legitimately heavy work, not a hang)",
		"an exit-0 run that logged at ERROR level is judged a failure that was not signalled (crd logs at ERROR level only when a command fails)",
	}
}
