package harness

import (
	"bytes"
	"fmt"
	"strings"
	"unicode/utf8"

	"gopkg.in/yaml.v3"

	"verif/sim/model"
	"verif/sim/simrt"
)

// C04 — accepted language = documented grammar; trees faithful; every
// truncation rejected; verdict independent of delivery.
type C04 struct {
	w               Workload
	stats           *Stats
	cases           []*Case
	ncuts           int
	nsent           int
	nmut            int
	nrand           int
	nlong, nreaderr int
	render          int // round-trip disagreements generator vs recogniser (harness self-check)
	regen           string
}

func NewC04(st *Stats) *C04 { return &C04{stats: st} }

func (p *C04) ID() string    { return "C04" }
func (p *C04) Level() string { return "fault_enumeration" }

var tokenAlphabet = []string{"C", "G", "R", "1", "5", "12", "#", "b", "♯", "♭", "m", "m7", "dim", "_", "/", "[", "]", ",", "{", "}", "=", ";", "txt", "x y", "\n", " "}

// junkRunes: characters no rule of the tokenisation treats specially (they
// can only be part of a symbol or of a metadata token): control characters,
// and letters whose low byte equals one of the delimiters / [ _ ; = { } , ] #.
var junkRunes = []string{"\"", "'", "`", "\\", "\x00", "\x01", "\x1a", "\x1b", "\x7f", "\u0085", "\u009b", "ś", "į", "ş", "Ļ", "Ľ", "⼯", "ŝ", "ū", "ŭ", "Ĭ", "ģ", "ő", "\ufeff", "\u200b", "\u2028", "\ufffd", "\U0001F3B5", "％", "［", "；", "１", "٣", "०", "９"}

func (p *C04) Prepare(env *Env, tier string, seed uint64) error {
	if err := p.w.Load(env); err != nil {
		return err
	}
	if tier == "replay" {
		return nil
	}
	nSent, nRandTok := 260, 2500
	if tier == "thorough" {
		nSent, nRandTok = 14000, 120000
	}
	r := model.NewRand(seed, "C04/gen")
	// auxiliary, not simulation: the committed parser must be what goyacc
	// generates from chords.y (regenerated at build time, see Env.GoyaccRegen)
	p.regen = env.GoyaccRegen
	p.cases = append(p.cases, &Case{Property: "C04", Kind: "regen", Seed: seed, Run: 0, Labels: []string{"goyacc-regeneration"}})
	mk := func(kind string, labels []string, text []byte, mode string, full bool) {
		c := &Case{Property: "C04", Kind: kind, Seed: seed, Run: len(p.cases), Labels: labels, Params: map[string]string{"mode": mode}}
		parse := Step{Step: simrt.Step{Argv: []string{"text", "parse"}, Seed: r.U64(), Stdin: &simrt.Stream{Data: text, Plan: GenPlan(r)}}, Note: "parse"}
		c.Steps = append(c.Steps, parse)
		if !full && r.Chance(1, 5) {
			// the same text as FILE argument (the oracle reads the text from step 0)
			fp := Step{Step: simrt.Step{Argv: []string{"text", "parse", inPath}, Seed: r.U64(), Stdin: &simrt.Stream{Data: text},
				Files: map[string]*simrt.FileSpec{inPath: {Data: text, Plan: GenPlan(r), Pipe: r.Chance(1, 3)}}}, Note: "parse-file"}
			if r.Chance(1, 2) {
				fp.Argv = []string{"text", "parse", "-"}
				fp.Files = nil
			}
			c.Steps = append(c.Steps, fp)
		}
		if full {
			p2 := Step{Step: simrt.Step{Argv: []string{"text", "parse"}, Seed: r.U64(), Stdin: &simrt.Stream{Data: text}, SchedPolicy: model.Pick(r, schedPolicies)}, Note: "parse-identity-delivery"}
			c.Steps = append(c.Steps, p2)
		}
		if full || r.Chance(1, 4) {
			argv := []string{"text", "conv", mode}
			if mode == "syllable" {
				argv = append(argv, "--key", model.Pick(r, model.SupportedKeys))
			}
			cv := Step{Step: simrt.Step{Argv: argv, Seed: r.U64(), Stdin: &simrt.Stream{Data: text, Plan: GenPlan(r)}, SchedPolicy: model.Pick(r, schedPolicies)}, Note: "conv"}
			c.Steps = append(c.Steps, cv)
		}
		p.cases = append(p.cases, c)
	}
	for i := 0; i < nSent; i++ {
		mode := model.Pick(r, []string{"syllable", "degree"})
		o := &model.TextOpts{Mode: mode, MaxItems: 1 + r.Intn(4), Trivia: r.Chance(2, 3), Unicode: r.Chance(1, 3), Exotic: r.Chance(1, 3),
			Meta: r.Chance(2, 3), KnownSyms: p.w.ChordSyms, EndComment: r.Chance(1, 8)}
		if r.Chance(1, 30) {
			o.MaxItems = 60
		}
		s := model.GenSentence(r, o)
		if pr := model.Recognise(s.Text); !pr.Accepted {
			p.render++
		}
		text := []byte(s.Text)
		mk("sentence", []string{"whole-sentence"}, text, mode, true)
		p.nsent++
		// every truncation offset (fault enumeration)
		if len(text) <= 400 {
			for k := 0; k < len(text); k++ {
				mk("cut", []string{"fault:F4:truncate", "cut-enumeration"}, append([]byte{}, text[:k]...), mode, false)
				p.ncuts++
			}
		}
		// token-level mutations
		toks := model.TokenSpans(s.Text)
		nm := 10
		if len(toks) > 1 {
			for m := 0; m < nm; m++ {
				i := r.Intn(len(toks))
				t := toks[i]
				var mt string
				var kind string
				switch r.Intn(9) {
				case 7, 8:
					// white space of every kind dropped into the middle of a token or between two tokens
					kind = "split"
					ws := model.Pick(r, []string{" ", "\t", "\r", "\n", "\v", "\f", "\u0085", "\u00a0", "\u2028", "\u3000", "\r\n"})
					at := t.Start
					if t.End-t.Start > 1 && r.Chance(2, 3) {
						at = t.Start + 1 + r.Intn(t.End-t.Start-1)
						for at < t.End && !utf8.RuneStart(s.Text[at]) {
							at++
						}
					}
					mt = s.Text[:at] + ws + s.Text[at:]
				case 5, 6:
					// a character no tokenisation rule knows, directly at a token boundary
					kind = "junk"
					at := t.Start
					if r.Chance(1, 2) {
						at = t.End
					}
					mt = s.Text[:at] + model.Pick(r, junkRunes) + s.Text[at:]
				case 0:
					kind = "delete"
					mt = s.Text[:t.Start] + s.Text[t.End:]
				case 1:
					kind = "duplicate"
					mt = s.Text[:t.End] + s.Text[t.Start:t.End] + s.Text[t.End:]
				case 2:
					kind = "swap"
					if i+1 < len(toks) {
						u := toks[i+1]
						mt = s.Text[:t.Start] + s.Text[u.Start:u.End] + s.Text[t.End:u.Start] + s.Text[t.Start:t.End] + s.Text[u.End:]
					} else {
						mt = s.Text[:t.Start]
					}
				case 3:
					kind = "insert"
					mt = s.Text[:t.Start] + model.Pick(r, tokenAlphabet) + s.Text[t.Start:]
				default:
					kind = "replace"
					mt = s.Text[:t.Start] + model.Pick(r, tokenAlphabet) + s.Text[t.End:]
				}
				mk("mutation", []string{"fault:F6:token-" + kind}, []byte(mt), mode, false)
				p.nmut++
			}
		}
	}
	// very long physical lines (one token or one comment longer than common
	// buffer sizes: 4096, 65536)
	for _, n := range []int{4090, 4096, 4097, 65530, 65536, 65537, 70000, 131073} {
		pad := strings.Repeat("x", n)
		digits := strings.Repeat("7", n)
		for _, txt := range []string{
			"C[1] ;" + pad + " D[1] {a=b}\nE[2]",
			"C[1]{txt=" + pad + "} D[1]",
			"C[1]{txt=a " + pad + "=" + "b}",
			"C" + "m" + pad + "[1] D[2]",
			"C_" + pad + "/E[1]",
			"C[" + digits + "] D[1]",
			"C[1] " + strings.Repeat(" ", n) + "D[1];" + pad,
		} {
			mk("long-line", []string{"fault:F8:long-line"}, []byte(txt), "syllable", false)
			p.nlong++
		}
	}
	// pieces of more than a thousand items (thresholds such as 1024, lengths
	// that are not multiples of 8 or 16): every item is in the tree and in the
	// instances, the last ones included
	longNs := []int{1025, 1031, 2050}
	if tier == "thorough" {
		longNs = []int{1023, 1024, 1025, 1027, 1031, 1100, 2047, 2049, 2050, 4099, 5003}
	}
	for _, n := range longNs {
		for _, mode := range []string{"degree", "syllable"} {
			units := []string{"1[1]", "5_7/7[1,1/2]{txt=hi}", "6m[2]", "R[1/2]", "4[1]{key=Am}", "2m7[3/4]"}
			if mode == "syllable" {
				units = []string{"C[1]", "G_7/B[1,1/2]{txt=hi}", "Am[2]", "R[1/2]", "F[1]{key=Am}", "Dm7[3/4]"}
			}
			var sb strings.Builder
			for i := 0; i < n; i++ {
				sb.WriteString(units[(i*7+i/5)%len(units)])
				sb.WriteString([]string{" ", "\n", "  ", " ;c\n"}[i%4])
			}
			mk("sentence", []string{"whole-sentence", "long-piece"}, []byte(sb.String()), mode, true)
			p.nlong++
		}
	}
	// neighbours whose written forms run together when root, accidental and
	// symbol are concatenated without the underscore (Db_5 / D_b5, 1_1 / 11)
	for _, pair := range [][3]string{{"degree", "2b_5", "2_b5"}, {"degree", "1_1", "11"}, {"degree", "4#_9", "4_#9"}, {"degree", "1_1/3", "11/3"}, {"degree", "7b_5/1", "7_b5/1"},
		{"syllable", "Db_5", "D_b5"}, {"syllable", "F#_11", "F_#11"}, {"syllable", "Eb_9/G", "E_b9/G"}, {"syllable", "Ab_5", "A_b5"}} {
		for _, txt := range []string{pair[1] + "[1] " + pair[2] + "[1]", pair[2] + "[1] " + pair[1] + "[2] " + pair[2] + "[1]", pair[1] + "[1] R[1] " + pair[2] + "[1] " + pair[1] + "[1]"} {
			mk("sentence", []string{"whole-sentence", "run-together-neighbours"}, []byte(txt), pair[0], true)
		}
	}
	// more than a mebibyte of comments between two groups of chords: what
	// comes after them is part of the piece
	for _, n := range []int{1<<20 + 100, 1<<20 + 70000} {
		pad := strings.Repeat("; a comment line among the chords ..........................................\n", n/76+1)
		txt := "C[1] D[2]\n" + pad + "E[1]{txt=after the comments} F[4] G[1]\n"
		c := &Case{Property: "C04", Kind: "long-line", Seed: seed, Run: len(p.cases), Labels: []string{"fault:F8:megabyte-of-comments"}, Params: map[string]string{"mode": "syllable"}}
		c.Steps = append(c.Steps, Step{Step: simrt.Step{Argv: []string{"text", "parse"}, Seed: r.U64(), Stdin: &simrt.Stream{Data: []byte(txt), Plan: simrt.Plan{Chunks: []int{1 << 16}}}}, Note: "parse"})
		c.Steps = append(c.Steps, Step{Step: simrt.Step{Argv: []string{"text", "conv", "syllable"}, Seed: r.U64(), Stdin: &simrt.Stream{Data: []byte(txt)}}, Note: "conv"})
		p.cases = append(p.cases, c)
		p.nlong++
	}
	// the stream breaks (read error) after a prefix: whatever the prefix is,
	// the command must not print a tree for it
	for i := 0; i < nSent/2; i++ {
		mode := model.Pick(r, []string{"syllable", "degree"})
		o := &model.TextOpts{Mode: mode, MaxItems: 2 + r.Intn(4), Trivia: r.Chance(1, 2), Meta: r.Chance(1, 2), KnownSyms: p.w.ChordSyms, EndComment: r.Chance(1, 6)}
		s := model.GenSentence(r, o)
		toks := model.TokenSpans(s.Text)
		cuts := []int{len(s.Text)}
		for _, t := range toks {
			if t.Kind == model.TRbra || t.Kind == model.TRcbra {
				cuts = append(cuts, t.End)
			}
		}
		cuts = append(cuts, r.Intn(len(s.Text)+1))
		for _, k := range cuts {
			c := &Case{Property: "C04", Kind: "readerr", Seed: seed, Run: len(p.cases), Labels: []string{"fault:F5:read-error"}, Params: map[string]string{"mode": mode}}
			for _, argv := range [][]string{{"text", "parse"}, {"text", "conv", mode}} {
				pl := GenPlan(r)
				pl.ErrNo, pl.ErrAfter = model.Pick(r, []string{"EIO", "EIO", "EACCES"}), k
				note := "parse"
				if argv[1] == "conv" {
					note = "conv"
				}
				c.Steps = append(c.Steps, Step{Step: simrt.Step{Argv: argv, Seed: r.U64(), Stdin: &simrt.Stream{Data: []byte(s.Text), Plan: pl}}, Note: note})
			}
			p.cases = append(p.cases, c)
			p.nreaderr++
		}
	}
	// short random token strings (sampled, not exhaustive)
	for i := 0; i < nRandTok; i++ {
		n := 1 + r.Intn(9)
		var sb strings.Builder
		for j := 0; j < n; j++ {
			if r.Chance(1, 12) {
				sb.WriteString(model.Pick(r, junkRunes))
			}
			sb.WriteString(model.Pick(r, tokenAlphabet))
			if r.Chance(1, 4) {
				sb.WriteString(" ")
			}
		}
		mk("random-tokens", []string{"random-token-string"}, []byte(sb.String()), model.Pick(r, []string{"syllable", "degree"}), false)
		p.nrand++
	}
	return nil
}

func (p *C04) Runs(tier string) int { return len(p.cases) }

func (p *C04) Generate(seed uint64, run int) *Case { return p.cases[run] }

// ---------------------------------------------------------------------------
// reading the tree `crd text parse` prints

type yTok struct {
	Value string `yaml:"value"`
}
type yDegree struct {
	Degree     *yTok `yaml:"degree"`
	Accidental *yTok `yaml:"accidental"`
}
type yItem struct {
	Degree *yDegree `yaml:"degree"`
	Symbol *struct {
		Symbol *yTok `yaml:"symbol"`
	} `yaml:"symbol"`
	Base *struct {
		Degree *yDegree `yaml:"degree"`
	} `yaml:"base"`
	Values *struct {
		Values []struct {
			Num   *yTok `yaml:"num"`
			Denom *yTok `yaml:"denom"`
		} `yaml:"values"`
	} `yaml:"values"`
	Meta *struct {
		Data []struct {
			Key   *yTok `yaml:"key"`
			Value *yTok `yaml:"value"`
		} `yaml:"data"`
	} `yaml:"meta"`
}
type yTree struct {
	List []yItem `yaml:"list"`
}

func tokVal(t *yTok) (string, bool) {
	if t == nil {
		return "", false
	}
	return t.Value, true
}

// treeDiff compares crd's tree with the recogniser's; returns the first
// differing field ("" when equal).
func treeDiff(out []byte, want []model.ItemT) (string, string) {
	var t yTree
	if err := yaml.Unmarshal(out, &t); err != nil {
		return "unreadable", err.Error()
	}
	if len(t.List) != len(want) {
		return "count", fmt.Sprintf("crd lists %d items, the text has %d", len(t.List), len(want))
	}
	degEq := func(y *yDegree, w model.DegreeT) (string, string) {
		if y == nil {
			return "root", "missing degree"
		}
		if v, _ := tokVal(y.Degree); v != w.Head {
			return "root", fmt.Sprintf("%q vs %q", v, w.Head)
		}
		v, ok := tokVal(y.Accidental)
		if ok != w.HasAcc || v != w.Acc {
			return "accidental", fmt.Sprintf("%q(%v) vs %q(%v)", v, ok, w.Acc, w.HasAcc)
		}
		return "", ""
	}
	for i, w := range want {
		y := t.List[i]
		if w.Rest != (y.Degree == nil) {
			return "kind", fmt.Sprintf("item %d: rest=%v in the text", i, w.Rest)
		}
		if !w.Rest {
			if f, d := degEq(y.Degree, w.Degree); f != "" {
				return f, fmt.Sprintf("item %d: %s", i, d)
			}
			var sv string
			var sok bool
			if y.Symbol != nil {
				sv, sok = tokVal(y.Symbol.Symbol)
			}
			if sok != w.HasSymbol || sv != w.Symbol {
				return "symbol", fmt.Sprintf("item %d: %q(%v) vs %q(%v)", i, sv, sok, w.Symbol, w.HasSymbol)
			}
			if (y.Base != nil) != (w.Bass != nil) {
				return "bass", fmt.Sprintf("item %d: bass present=%v vs %v", i, y.Base != nil, w.Bass != nil)
			}
			if w.Bass != nil {
				if f, d := degEq(y.Base.Degree, *w.Bass); f != "" {
					return "bass", fmt.Sprintf("item %d: %s %s", i, f, d)
				}
			}
		} else if y.Symbol != nil || y.Base != nil {
			return "kind", fmt.Sprintf("item %d: rest with symbol/bass", i)
		}
		if y.Values == nil || len(y.Values.Values) != len(w.Values) {
			return "values", fmt.Sprintf("item %d: number of values", i)
		}
		for j, wv := range w.Values {
			yv := y.Values.Values[j]
			n, _ := tokVal(yv.Num)
			d, dok := tokVal(yv.Denom)
			if n != wv.Num || dok != wv.HasDenom || d != wv.Denom {
				return "values", fmt.Sprintf("item %d value %d: %q/%q(%v) vs %q/%q(%v)", i, j, n, d, dok, wv.Num, wv.Denom, wv.HasDenom)
			}
		}
		if (y.Meta != nil) != w.HasMeta {
			return "meta", fmt.Sprintf("item %d: meta present=%v vs %v", i, y.Meta != nil, w.HasMeta)
		}
		if w.HasMeta {
			if len(y.Meta.Data) != len(w.Meta) {
				return "meta", fmt.Sprintf("item %d: %d pairs vs %d", i, len(y.Meta.Data), len(w.Meta))
			}
			for j, wp := range w.Meta {
				k, _ := tokVal(y.Meta.Data[j].Key)
				v, _ := tokVal(y.Meta.Data[j].Value)
				if k != wp.Key || v != wp.Value {
					return "meta", fmt.Sprintf("item %d pair %d: %q=%q vs %q=%q", i, j, k, v, wp.Key, wp.Value)
				}
			}
		}
	}
	return "", ""
}

func caseClass(c *Case, pr model.Parse) string {
	switch c.Kind {
	case "cut":
		if pr.EndedIn != "" {
			return "cut-inside-" + pr.EndedIn
		}
		return "cut-between-tokens"
	case "mutation":
		if l, ok := c.HasLabel("fault:F6:"); ok {
			return strings.TrimPrefix(l, "fault:F6:")
		}
	case "sentence":
		if pr.EndedIn != "" {
			return "sentence-ending-in-" + pr.EndedIn
		}
		return "sentence"
	}
	return c.Kind
}

// produced reports whether the command printed a result.
func produced(r *Result) bool { return r.OK() && len(bytes.TrimSpace(r.Stdout)) > 0 }

// refused: no result, a diagnostic, no crash, no hang.
func refused(r *Result) bool {
	return r.Hang() == "" && r.Crash() == "" && len(r.Stdout) == 0 && len(bytes.TrimSpace(r.Stderr)) > 0
}

func (p *C04) Evaluate(env *Env, c *Case) (*Outcome, error) {
	out := &Outcome{Results: make([]*Result, len(c.Steps))}
	if c.Kind == "regen" {
		if strings.HasPrefix(env.GoyaccRegen, "differs") {
			out.Findings = append(out.Findings, Finding{Signature: "C04/parser-is-not-goyacc-output",
				Detail: "input/ast/chords_goyacc_generated.go is not what `go tool goyacc` generates from input/ast/chords.y: " + env.GoyaccRegen})
		}
		return out, nil
	}
	for i := range c.Steps {
		r, err := env.Exec(&c.Steps[i])
		if err != nil {
			return nil, err
		}
		out.Results[i] = r
	}
	if c.Kind == "readerr" {
		for i := range c.Steps {
			st, r := &c.Steps[i], out.Results[i]
			cmd := CommandOf(st.Argv)
			k := st.Stdin.Plan.ErrAfter
			if k > len(st.Stdin.Data) {
				k = len(st.Stdin.Data)
			}
			switch {
			case r.Hang() != "":
				out.Findings = append(out.Findings, Finding{Signature: "C04/no-verdict-hang/read-error/" + cmd,
					Detail: fmt.Sprintf("`crd %s` does not terminate (%s) when its input breaks with %s after %d bytes; text %q", strings.Join(st.Argv, " "), r.Hang(), st.Stdin.Plan.ErrNo, k, first(st.Stdin.Data, 160))})
			case produced(r):
				out.Findings = append(out.Findings, Finding{Signature: "C04/suffix-dropped-on-read-error/" + cmd,
					Detail: fmt.Sprintf("the input stream of `crd %s` broke with %s after %d of %d bytes and the command printed a result for the part it had seen: the rest was dropped silently; text %q", strings.Join(st.Argv, " "), st.Stdin.Plan.ErrNo, k, len(st.Stdin.Data), first(st.Stdin.Data, 160))})
			}
		}
		return out, nil
	}
	text := c.Steps[0].Stdin.Data
	if !utf8.Valid(text) {
		// no verdict on corrupt encodings (C09's subject); delivery independence still applies
		return out, nil
	}
	pr := model.Recognise(string(text))
	class := caseClass(c, pr)
	add := func(sig, detail string) {
		out.Findings = append(out.Findings, Finding{Signature: sig, Detail: detail + fmt.Sprintf("; text %q", first(text, 200))})
	}
	var parseRes []*Result
	for i := range c.Steps {
		st, r := &c.Steps[i], out.Results[i]
		cmd := CommandOf(st.Argv)
		if h := r.Hang(); h != "" {
			what := "rejects"
			if pr.Accepted {
				what = "accepts"
			}
			add(fmt.Sprintf("C04/no-verdict-hang/%s/%s", class, cmd),
				fmt.Sprintf("`crd %s` does not terminate (%s) on a text the grammar %s", strings.Join(st.Argv, " "), h, what))
			continue
		}
		if r.Crash() != "" {
			add(fmt.Sprintf("C04/no-verdict-crash/%s/%s", class, cmd), fmt.Sprintf("`crd %s` crashed: %s", strings.Join(st.Argv, " "), first(r.Stderr, 200)))
			continue
		}
		if strings.HasPrefix(st.Note, "parse") {
			parseRes = append(parseRes, r)
			switch {
			case pr.Accepted && !produced(r):
				add(fmt.Sprintf("C04/rejects-valid/%s/%s", class, cmd), fmt.Sprintf("the grammar accepts the text, `crd text parse` refused it: %s", first(r.Stderr, 200)))
			case !pr.Accepted && !refused(r):
				add(fmt.Sprintf("C04/accepts-invalid/%s/%s", class, cmd), fmt.Sprintf("the grammar rejects the text (%s), `crd text parse` printed a tree: %s", pr.Reason, first(r.Stdout, 120)))
			case pr.Accepted:
				if f, d := treeDiff(r.Stdout, pr.Items); f != "" {
					add(fmt.Sprintf("C04/tree-differs/%s/%s", f, cmd), "tree printed by `crd text parse` differs from the text: "+d)
				}
			}
		} else { // conv
			if !pr.Accepted && produced(r) {
				add(fmt.Sprintf("C04/accepts-invalid/%s/%s", class, cmd), fmt.Sprintf("the grammar rejects the text (%s), `crd %s` converted it: %s", pr.Reason, strings.Join(st.Argv, " "), first(r.Stdout, 120)))
			}
			if pr.Accepted && produced(r) {
				var insts []map[string]any
				if err := yaml.Unmarshal(r.Stdout, &insts); err != nil {
					add("C04/conv-output-unreadable/"+cmd, err.Error())
				} else if len(insts) != len(pr.Items) {
					add("C04/conv-drops-items/"+cmd, fmt.Sprintf("the text has %d chords/rests, the conversion lists %d", len(pr.Items), len(insts)))
				} else {
					for k, in := range insts {
						ch, hasChord := in["chord"].(map[string]any)
						if _, any := in["chord"]; any == pr.Items[k].Rest {
							add("C04/conv-item-kind/"+cmd, fmt.Sprintf("item %d: chord/rest kind differs", k))
							break
						}
						_ = ch
						_ = hasChord
					}
					// a chord is converted by itself: item k of the whole text and item k
					// alone (same command, same --key) give the same chord, unless a key
					// change inside the text stands between them
					keyChange := false
					for _, it := range pr.Items {
						for _, m := range it.Meta {
							if strings.TrimSpace(m.Key) == "key" {
								keyChange = true
							}
						}
					}
					if !keyChange && len(insts) > 1 {
						h := fnv32(string(text))
						for _, k := range []int{int(h % uint32(len(insts))), int((h / 7) % uint32(len(insts)))} {
							it := pr.Items[k]
							if it.Rest {
								continue
							}
							single := it.Degree.Head + it.Degree.Acc
							if it.Symbol != "" {
								single += "_" + it.Symbol
							}
							if it.Bass != nil {
								single += "/" + it.Bass.Head + it.Bass.Acc
							}
							single += "[1]"
							if spr := model.Recognise(single); !spr.Accepted || len(spr.Items) != 1 {
								continue
							}
							one := Step{Step: simrt.Step{Argv: append([]string{}, st.Argv...), Seed: st.Seed, Stdin: &simrt.Stream{Data: []byte(single)}}, Note: "conv-single"}
							r1, err := env.Exec(&one)
							if err != nil {
								return nil, err
							}
							if !produced(r1) {
								continue // alone it is refused (unknown symbol ...): nothing to compare
							}
							var alone []map[string]any
							if yaml.Unmarshal(r1.Stdout, &alone) != nil || len(alone) != 1 {
								continue
							}
							a, _ := yaml.Marshal(alone[0]["chord"])
							b, _ := yaml.Marshal(insts[k]["chord"])
							if !bytes.Equal(a, b) {
								add("C04/conv-chord-depends-on-neighbours/"+cmd, fmt.Sprintf("item %d (%q) is converted to %s inside the text and to %s alone (same command, same key)", k, single, first(b, 160), first(a, 160)))
								break
							}
						}
					}
				}
			}
		}
	}
	if len(parseRes) == 2 {
		a, b := parseRes[0], parseRes[1]
		if produced(a) != produced(b) {
			add("C04/delivery-dependent/status/text parse", "the same bytes delivered differently give a different verdict")
		} else if !bytes.Equal(a.Stdout, b.Stdout) {
			add("C04/delivery-dependent/tree/text parse", "the same bytes delivered differently give a different tree")
		}
	}
	return out, nil
}

func (p *C04) Shrinks(c *Case) []*Case {
	var out []*Case
	if c.Kind == "regen" {
		return nil
	}
	if c.Kind == "readerr" {
		var out []*Case
		if len(c.Steps) > 1 {
			for i := range c.Steps {
				d := c.Clone()
				d.Steps = []Step{d.Steps[i]}
				out = append(out, d)
			}
		}
		return out
	}
	if len(c.Steps) > 1 {
		for i := range c.Steps {
			d := c.Clone()
			d.Steps = []Step{d.Steps[i]}
			out = append(out, d)
		}
	}
	for i := range c.Steps {
		d := c.Clone()
		if NormalizeStep(&d.Steps[i]) {
			out = append(out, d)
		}
	}
	for _, b := range ShrinkBytes(c.Steps[0].Stdin.Data) {
		d := c.Clone()
		old := c.Steps[0].Stdin.Data
		for i := range d.Steps {
			d.Steps[i].Stdin.Data = b
			// the FILE variant reads the same text from a file
			for _, f := range d.Steps[i].Files {
				if f != nil && bytes.Equal(f.Data, old) {
					f.Data = b
				}
			}
		}
		out = append(out, d)
	}
	return out
}

func (p *C04) Extra() map[string]any {
	return map[string]any{
		"sentences":                             p.nsent,
		"cut_points_enumerated":                 p.ncuts,
		"exhaustive":                            false,
		"exhaustive_over":                       "every byte offset of every generated sentence of at most 400 bytes is a truncation case (complete over cut points per sentence, sampled over sentences)",
		"token_mutations":                       p.nmut,
		"long_line_cases":                       p.nlong,
		"read_error_cases":                      p.nreaderr,
		"random_token_strings":                  p.nrand,
		"generator_vs_recogniser_disagreements": p.render,
		"goyacc_regeneration":                   p.regen,
		"not_covered":                           "bounded-exhaustive enumeration of all strings (model checking); the goyacc clause is only checked by an auxiliary regenerate-and-compare step at build time, which is not simulation",
	}
}

func (p *C04) Rule() string {
	return "cases: whole grammar-derived sentences (two deliveries of `text parse` + `text conv`), every proper prefix of each sentence (fault enumeration over cut points), token deletions/duplications/swaps/insertions/replacements, and short random token strings; oracle = independently written tokenizer + recursive-descent recogniser (DESIGN Appendix A) and tree comparison on token values; non-trivial/distinct as for C12 with the truncation/mutation label part of the tuple"
}

func (p *C04) Assumptions() []string {
	return []string{
		"the recogniser is a second reading of chords.y and of the documented tokenisation by the same person; goyacc-table equivalence is not checked",
		"only valid UTF-8 texts get a verdict",
		"accepted = exit 0 and a tree on stdout; rejected = no stdout, a diagnostic on stderr, no crash or hang (the exit-status clause itself belongs to C09)",
		"token positions (line/col/offset) are not compared",
	}
}

func fnv32(x string) uint32 {
	h := uint32(2166136261)
	for i := 0; i < len(x); i++ {
		h ^= uint32(x[i])
		h *= 16777619
	}
	return h
}
