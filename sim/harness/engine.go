package harness

import (
	"bytes"
	"crypto/sha256"
	"encoding/hex"
	"encoding/json"
	"fmt"
	"os"
	"path/filepath"
	"sort"
	"strings"
	"sync"
	"time"

	"verif/sim/model"
)

// Case is one scenario = one replay file: a property, an oracle kind, and the
// simulated processes it consists of.
type Case struct {
	Property string            `json:"property"`
	Kind     string            `json:"kind"`
	Seed     uint64            `json:"seed"`
	Run      int               `json:"run"`
	Steps    []Step            `json:"steps"`
	Labels   []string          `json:"labels,omitempty"`
	Params   map[string]string `json:"params,omitempty"`
	Verdict  *Verdict          `json:"verdict,omitempty"`
}

type Verdict struct {
	Signature string `json:"signature"`
	Detail    string `json:"detail"`
}

func (c *Case) Clone() *Case {
	b, _ := json.Marshal(c)
	var d Case
	_ = json.Unmarshal(b, &d)
	return &d
}

func (c *Case) HasLabel(prefix string) (string, bool) {
	for _, l := range c.Labels {
		if strings.HasPrefix(l, prefix) {
			return l, true
		}
	}
	return "", false
}

// Finding is one oracle failure on one case.
type Finding struct {
	Signature string
	Detail    string
}

// Outcome is what evaluating a case produced.
type Outcome struct {
	Results  []*Result
	Findings []Finding
	// Incomplete: the real runtime showed a behaviour no simulated execution
	// reproduced (not replayable). Reported with exit 2 unless the campaign
	// also has replayable violations to report.
	Incomplete string
}

// Property is one campaign.
type Property interface {
	ID() string
	Level() string
	// Prepare is called once after the build (e.g. to read the tree's own
	// dictionaries through the simulated binary).
	Prepare(env *Env, tier string, seed uint64) error
	// Runs is the number of cases of the tier.
	Runs(tier string) int
	// Generate builds case number run (pure function of seed, run, Prepare data).
	Generate(seed uint64, run int) *Case
	// Evaluate executes the case and applies the oracle.
	Evaluate(env *Env, c *Case) (*Outcome, error)
	// Shrinks proposes smaller cases.
	Shrinks(c *Case) []*Case
	// Extra evidence (probes etc.).
	Extra() map[string]any
	Rule() string
	Assumptions() []string
}

// ---------------------------------------------------------------------------
// known findings

type KnownFinding struct {
	Property  string `json:"property"`
	Signature string `json:"signature"`
	Status    string `json:"status"` // open | fixed
	Commit    string `json:"commit,omitempty"`
	What      string `json:"what"`
}

type KnownFile struct {
	Findings []KnownFinding `json:"findings"`
	Fixed    []string       `json:"fixed,omitempty"`
}

func LoadKnown(verifDir string) (*KnownFile, error) {
	b, err := os.ReadFile(filepath.Join(verifDir, "known_findings.json"))
	if os.IsNotExist(err) {
		return &KnownFile{}, nil
	}
	if err != nil {
		return nil, err
	}
	var k KnownFile
	if err := json.Unmarshal(b, &k); err != nil {
		return nil, Infraf("known_findings.json: %v", err)
	}
	return &k, nil
}

func (k *KnownFile) Open(property, sig string) *KnownFinding {
	for i := range k.Findings {
		f := &k.Findings[i]
		if f.Status == "open" && f.Property == property && f.Signature == sig {
			return f
		}
	}
	return nil
}

// ---------------------------------------------------------------------------
// statistics for the evidence file

type Stats struct {
	mu         sync.Mutex
	Cases      int
	Procs      int
	PlainProcs int
	Distinct   map[string]struct{}
	Trivial    int
	FaultFired map[string]int
	FaultConf  map[string]int
	MapSigs    map[string]map[uint64]struct{}
	SchedSigs  map[uint64]struct{}
	PlanSigs   map[string]struct{}
	CmdCount   map[string]int
	Stage2     int
	Probes     map[string]int
	Samples    []any
	ExitKinds  map[string]int
}

func NewStats() *Stats {
	return &Stats{
		Distinct: map[string]struct{}{}, FaultFired: map[string]int{}, FaultConf: map[string]int{},
		MapSigs: map[string]map[uint64]struct{}{}, SchedSigs: map[uint64]struct{}{}, PlanSigs: map[string]struct{}{},
		CmdCount: map[string]int{}, Probes: map[string]int{}, ExitKinds: map[string]int{},
	}
}

// CommandOf names the subcommand of an argv ("info key conv").
func CommandOf(argv []string) string {
	var w []string
	skip := false
	for _, a := range argv {
		if skip {
			skip = false
			continue
		}
		if strings.HasPrefix(a, "-") {
			if !strings.Contains(a, "=") && a != "--debug" && a != "-s" && a != "--precedeSharp" && a != "-" {
				skip = true
			}
			if a == "-" {
				break
			}
			continue
		}
		if strings.HasPrefix(a, "/") {
			break
		}
		w = append(w, a)
		if len(w) == 3 {
			break
		}
	}
	cmd := strings.Join(w, " ")
	switch {
	case strings.HasPrefix(cmd, "text conv "), strings.HasPrefix(cmd, "info "):
		return cmd
	case strings.HasPrefix(cmd, "text parse"):
		return "text parse"
	case strings.HasPrefix(cmd, "write event"), strings.HasPrefix(cmd, "write parse"), strings.HasPrefix(cmd, "write conv"), strings.HasPrefix(cmd, "write play"):
		return strings.Join(w[:2], " ")
	case strings.HasPrefix(cmd, "write"):
		return "write"
	case strings.HasPrefix(cmd, "gen attr"):
		return "gen attr"
	}
	if len(w) > 2 {
		w = w[:2]
	}
	return strings.Join(w, " ")
}

func (s *Stats) Observe(c *Case, st *Step, r *Result) {
	s.mu.Lock()
	defer s.mu.Unlock()
	if st.Plain {
		s.PlainProcs++
		return
	}
	s.Procs++
	cmd := CommandOf(st.Argv)
	s.CmdCount[cmd]++
	if r.Stage == 2 {
		s.Stage2++
	}
	nontrivial := false
	var key strings.Builder
	key.WriteString(cmd)
	key.WriteString("|")
	for _, l := range c.Labels {
		if strings.HasPrefix(l, "fault:") {
			s.FaultConf[l]++
		}
	}
	if j := r.Journal; j != nil {
		ids := make([]string, 0, len(j.MapSites))
		for id := range j.MapSites {
			ids = append(ids, id)
		}
		sort.Strings(ids)
		for _, id := range ids {
			ss := j.MapSites[id]
			if s.MapSigs[id] == nil {
				s.MapSigs[id] = map[uint64]struct{}{}
			}
			s.MapSigs[id][ss.Hash] = struct{}{}
			if ss.NonIdent > 0 {
				nontrivial = true
				fmt.Fprintf(&key, "m%s:%x,", id, ss.Hash)
				s.FaultFired["map-order-permuted"]++
			}
		}
		if j.SchedChoices > 0 {
			s.SchedSigs[j.SchedHash] = struct{}{}
			s.Probes["sched:choice-points"] += j.SchedChoices
		}
		if j.SchedSwitch > 0 {
			nontrivial = true
			fmt.Fprintf(&key, "s%x,", j.SchedHash)
			s.FaultFired["sched-preemption"]++
		}
		if j.BlockedSends > 0 {
			s.Probes["sched:producer-blocked-on-full-channel"]++
		}
		if j.BlockedRecvs > 0 {
			s.Probes["sched:consumer-blocked-on-empty-channel"]++
		}
		if j.Abandoned > 0 {
			s.Probes["sched:task-alive-at-exit"]++
		}
		if j.DelayedReads > 0 {
			s.FaultFired["F13:slow-source(read delayed in simulated time)"]++
			nontrivial = true
			key.WriteString("slow")
		}
		if j.StmtPreempts > 0 {
			s.FaultFired["sched-preemption-between-statements"]++
			nontrivial = true
		}
		if j.DelayedWrites > 0 {
			s.FaultFired["F15:slow-destination(write delayed in simulated time)"]++
			nontrivial = true
			key.WriteString("sloww")
		}
		if j.TimersFired > 0 {
			s.Probes["time:timer-fired"] += j.TimersFired
		}
		if j.ClockJumps > 0 {
			s.Probes["time:clock-jump-with-all-tasks-blocked"] += j.ClockJumps
		}
		for _, sm := range j.Streams {
			sig := fmt.Sprintf("z%d,s%d,r%d,j%v", min(sm.ZeroReads, 3), min(sm.ShortReads, 50), min(sm.SplitRune, 9), sm.EOFJoined)
			if sm.ZeroReads > 0 {
				s.FaultFired["F2:zero-read"]++
				nontrivial = true
			}
			if sm.ShortReads > 0 {
				s.FaultFired["F1:short-read"]++
				nontrivial = true
			}
			if sm.SplitRune > 0 {
				s.FaultFired["F1:rune-split-across-reads"]++
				nontrivial = true
			}
			if sm.EOFJoined {
				s.FaultFired["F3:eof-with-data"]++
				nontrivial = true
			}
			s.PlanSigs[sig] = struct{}{}
			key.WriteString(sig)
		}
		for _, f := range j.Faults {
			parts := strings.SplitN(f, ":", 3)
			s.FaultFired["F10:"+parts[0]+":"+parts[1]]++
			nontrivial = true
			key.WriteString(parts[0] + parts[1])
		}
		switch j.Verdict {
		case "exit":
		default:
			s.ExitKinds["hang:"+j.Verdict]++
		}
	}
	for _, l := range c.Labels {
		if strings.HasPrefix(l, "fault:") || strings.HasPrefix(l, "nonsense:") {
			nontrivial = true
			key.WriteString(l)
		}
	}
	if cr := r.Crash(); cr != "" {
		s.ExitKinds["crash:"+cr]++
	} else if r.Exit == 0 {
		s.ExitKinds["success"]++
	} else if r.Hang() == "" {
		s.ExitKinds["failure"]++
	}
	// input identity is part of the tuple
	h := sha256.New()
	for _, a := range st.Argv {
		h.Write([]byte(a))
		h.Write([]byte{0})
	}
	if st.Stdin != nil {
		h.Write(st.Stdin.Data)
	}
	key.WriteString(hex.EncodeToString(h.Sum(nil)[:8]))
	if nontrivial {
		s.Distinct[key.String()] = struct{}{}
	} else {
		s.Trivial++
	}
}

func (s *Stats) Probe(name string) {
	s.mu.Lock()
	s.Probes[name]++
	s.mu.Unlock()
}

func (s *Stats) Fired(name string) {
	s.mu.Lock()
	s.FaultFired[name]++
	s.mu.Unlock()
}

func (s *Stats) AddSample(v any) {
	s.mu.Lock()
	if len(s.Samples) < 4 {
		s.Samples = append(s.Samples, v)
	}
	s.mu.Unlock()
}

// ---------------------------------------------------------------------------
// running a campaign

type Report struct {
	Violations []*Case // minimised, unknown
	Known      []KnownHit
	Incomplete []string
}

type KnownHit struct {
	Finding *KnownFinding
	Case    *Case
}

type Options struct {
	Tier     string
	Seed     uint64
	VerifDir string
	RepoDir  string
	MaxRuns  int // override (0 = tier default)
}

func sampleOf(c *Case, out *Outcome) map[string]any {
	m := map[string]any{"kind": c.Kind, "run": c.Run, "labels": c.Labels}
	var steps []map[string]any
	for i, st := range c.Steps {
		if i >= 3 {
			break
		}
		sm := map[string]any{"argv": st.Argv, "map_policy": st.MapPolicy, "sched_policy": st.SchedPolicy}
		if st.Plain {
			sm["plain"] = true
		}
		if st.Stdin != nil {
			sm["stdin"] = first(st.Stdin.Data, 160)
			sm["plan"] = st.Stdin.Plan
		}
		if out != nil && i < len(out.Results) && out.Results[i] != nil {
			r := out.Results[i]
			sm["exit"] = r.Exit
			sm["stdout"] = first(r.Stdout, 120)
			if r.Journal != nil {
				sm["ticks"] = r.Journal.Ticks
				sm["verdict"] = r.Journal.Verdict
			}
		}
		steps = append(steps, sm)
	}
	m["steps"] = steps
	m["nsteps"] = len(c.Steps)
	return m
}

// RunCampaign executes all runs of the tier on the worker pool.
func RunCampaign(env *Env, p Property, opt Options, st *Stats) (*Report, error) {
	known, err := LoadKnown(opt.VerifDir)
	if err != nil {
		return nil, err
	}
	n := p.Runs(opt.Tier)
	if opt.MaxRuns > 0 && opt.MaxRuns < n {
		n = opt.MaxRuns
	}
	// the corpus: minimised cases that once convicted a seeded change (kept
	// under /verif/corpus); they are run with every campaign, so that what was
	// caught once stays caught whatever the generators draw
	generated := n
	corpus := LoadCorpus(opt.VerifDir, p.ID())
	n += len(corpus)
	st.mu.Lock()
	st.Probes["corpus:cases"] = len(corpus)
	st.mu.Unlock()
	type hit struct {
		c *Case
		f Finding
	}
	var (
		mu         sync.Mutex
		bySig      = map[string]hit{}
		firstErr   error
		wg         sync.WaitGroup
		next       int
		incomplete []string
	)
	worker := func() {
		defer wg.Done()
		for {
			mu.Lock()
			if firstErr != nil || next >= n {
				mu.Unlock()
				return
			}
			run := next
			next++
			mu.Unlock()
			var c *Case
			if run >= generated {
				c = corpus[run-generated].Clone()
				c.Run = 2_000_000 + run - generated
				c.Seed = opt.Seed
				c.Verdict = nil
			} else {
				c = p.Generate(opt.Seed, run)
			}
			if c == nil {
				continue
			}
			t0 := time.Now()
			out, err := p.Evaluate(env, c)
			if d := time.Since(t0); d > 5*time.Second && os.Getenv("CRDSIM_SLOW") != "" {
				fmt.Fprintf(os.Stderr, "slow case: run %d %.1fs labels=%v argv=%v input=%d bytes\n", c.Run, d.Seconds(), c.Labels, c.Steps[0].Argv, len(inputOf(c)))
			}
			if err != nil {
				mu.Lock()
				if firstErr == nil {
					firstErr = err
				}
				mu.Unlock()
				return
			}
			st.mu.Lock()
			st.Cases++
			st.mu.Unlock()
			if out.Incomplete != "" {
				mu.Lock()
				if len(incomplete) < 5 {
					incomplete = append(incomplete, out.Incomplete)
				}
				mu.Unlock()
			}
			for i := range c.Steps {
				if i < len(out.Results) && out.Results[i] != nil {
					st.Observe(c, &c.Steps[i], out.Results[i])
				}
			}
			if run < 3 || (len(out.Findings) == 0 && run%997 == 0) {
				st.AddSample(sampleOf(c, out))
			}
			for _, f := range out.Findings {
				mu.Lock()
				if _, seen := bySig[f.Signature]; !seen {
					bySig[f.Signature] = hit{c: c, f: f}
				}
				mu.Unlock()
			}
		}
	}
	nw := env.Workers()
	for i := 0; i < nw; i++ {
		wg.Add(1)
		go worker()
	}
	wg.Wait()
	if firstErr != nil {
		return nil, firstErr
	}

	rep := &Report{Incomplete: incomplete}
	sigs := make([]string, 0, len(bySig))
	for s := range bySig {
		sigs = append(sigs, s)
	}
	sort.Strings(sigs)
	// minimise (bounded) and classify; shrink in parallel
	type shr struct {
		sig string
		c   *Case
		err error
	}
	res := make([]shr, len(sigs))
	var wg2 sync.WaitGroup
	sem := make(chan struct{}, 8)
	for i, sig := range sigs {
		wg2.Add(1)
		go func() {
			defer wg2.Done()
			sem <- struct{}{}
			defer func() { <-sem }()
			h := bySig[sig]
			mc, err := Minimise(env, p, h.c, h.f)
			res[i] = shr{sig: sig, c: mc, err: err}
		}()
	}
	wg2.Wait()
	for _, r := range res {
		if r.err != nil {
			return nil, r.err
		}
		if r.c == nil {
			// did not reproduce on re-execution: the simulator is incomplete
			return nil, Infraf("SIMULATOR-INCOMPLETE: finding %q did not reproduce when its scenario was re-executed", r.sig)
		}
		if kf := known.Open(p.ID(), r.c.Verdict.Signature); kf != nil {
			rep.Known = append(rep.Known, KnownHit{Finding: kf, Case: r.c})
			continue
		}
		rep.Violations = append(rep.Violations, r.c)
	}
	return rep, nil
}

// Minimise shrinks c while the same signature persists, then re-executes the
// result once more in a fresh worker. Returns nil if the original does not
// reproduce.
func Minimise(env *Env, p Property, c *Case, f Finding) (*Case, error) {
	reproduces := func(x *Case) (bool, Finding, error) {
		out, err := p.Evaluate(env, x)
		if err != nil {
			return false, Finding{}, err
		}
		for _, g := range out.Findings {
			if g.Signature == f.Signature {
				return true, g, nil
			}
		}
		return false, Finding{}, nil
	}
	ok, g, err := reproduces(c)
	if err != nil {
		return nil, err
	}
	if !ok {
		return nil, nil
	}
	cur := c
	curF := g
	budget := 300
	deadline := time.Now().Add(90 * time.Second)
	for budget > 0 && time.Now().Before(deadline) {
		improved := false
		for _, cand := range p.Shrinks(cur) {
			if budget <= 0 || time.Now().After(deadline) {
				break
			}
			budget--
			ok, g, err := reproduces(cand)
			if err != nil {
				return nil, err
			}
			if ok {
				cur, curF = cand, g
				improved = true
				break
			}
		}
		if !improved {
			break
		}
	}
	// final confirmation
	ok, g, err = reproduces(cur)
	if err != nil {
		return nil, err
	}
	if !ok {
		return nil, nil
	}
	curF = g
	out := cur.Clone()
	out.Verdict = &Verdict{Signature: curF.Signature, Detail: curF.Detail}
	return out, nil
}

// WriteReplay stores the minimised case under /verif/replays.
// LoadCorpus reads /verif/corpus/<property>-*.json (replay files).
func LoadCorpus(verifDir, prop string) []*Case {
	names, _ := filepath.Glob(filepath.Join(verifDir, "corpus", prop+"-*.json"))
	sort.Strings(names)
	var out []*Case
	for _, n := range names {
		b, err := os.ReadFile(n)
		if err != nil || len(b) > 1<<20 {
			continue
		}
		var c Case
		if json.Unmarshal(b, &c) != nil || c.Property != prop || len(c.Steps) == 0 {
			continue
		}
		c.Labels = append(c.Labels, "corpus:"+strings.TrimSuffix(filepath.Base(n), ".json"))
		out = append(out, &c)
	}
	return out
}

func WriteReplay(verifDir string, c *Case) (string, error) {
	dir := filepath.Join(verifDir, "replays")
	name := ""
	h := sha256.Sum256([]byte(c.Verdict.Signature))
	if filepath.Base(verifDir) == "known_replays" {
		// one stable file per listed finding
		dir = verifDir
		name = fmt.Sprintf("%s-%s.json", c.Property, hex.EncodeToString(h[:4]))
	} else {
		name = fmt.Sprintf("%s-%d-%d-%s.json", c.Property, c.Seed, c.Run, hex.EncodeToString(h[:4]))
	}
	if err := os.MkdirAll(dir, 0o755); err != nil {
		return "", err
	}
	p := filepath.Join(dir, name)
	b, err := json.MarshalIndent(c, "", " ")
	if err != nil {
		return "", err
	}
	return p, os.WriteFile(p, b, 0o644)
}

// ---------------------------------------------------------------------------
// generic shrinking helpers

// ShrinkBytes proposes smaller variants of data: drop lines, drop
// white-space separated words, drop halves, drop single bytes (short inputs).
func ShrinkBytes(data []byte) [][]byte {
	var out [][]byte
	seen := map[string]bool{string(data): true}
	add := func(b []byte) {
		if !seen[string(b)] {
			seen[string(b)] = true
			out = append(out, b)
		}
	}
	if len(data) == 0 {
		return nil
	}
	n := len(data)
	add(append([]byte{}, data[:n/2]...))
	add(append([]byte{}, data[n/2:]...))
	lines := bytes.SplitAfter(data, []byte("\n"))
	if len(lines) > 1 && len(lines) <= 60 {
		for i := range lines {
			var b []byte
			for j, l := range lines {
				if j != i {
					b = append(b, l...)
				}
			}
			add(b)
		}
	}
	words := bytes.Fields(data)
	if len(words) > 1 && len(words) <= 60 {
		for i := range words {
			var b []byte
			for j, w := range words {
				if j != i {
					if len(b) > 0 {
						b = append(b, ' ')
					}
					b = append(b, w...)
				}
			}
			add(b)
		}
	}
	if n <= 48 {
		for i := 0; i < n; i++ {
			b := append(append([]byte{}, data[:i]...), data[i+1:]...)
			add(b)
		}
	} else {
		q := n / 8
		for i := 0; i+q <= n; i += q {
			b := append(append([]byte{}, data[:i]...), data[i+q:]...)
			add(b)
		}
	}
	return out
}

// NormalizeStep resets schedule/delivery choices of a step to the identity.
func NormalizeStep(st *Step) bool {
	changed := false
	if st.MapPolicy != "" && st.MapPolicy != "sorted" {
		st.MapPolicy = "sorted"
		changed = true
	}
	if st.SchedPolicy != "" && st.SchedPolicy != "run-to-block" {
		st.SchedPolicy = "run-to-block"
		changed = true
	}
	if st.Stdin != nil && (len(st.Stdin.Plan.Chunks) > 0 || st.Stdin.Plan.EOFWithData) {
		st.Stdin.Plan = planIdentity()
		changed = true
	}
	return changed
}

var _ = model.NewRand
