package harness

import (
	"bytes"
	"fmt"
	"strings"

	"verif/sim/simrt"
)

// Growth cases ("terminates promptly" for over-long inputs): the same command
// on an input of n and of 4n repetitions of one unit. The logical clock of the
// two executions is compared: work that grows like n or n log n quadruples
// (ratio about 4..5), quadratic work grows sixteen-fold. A ratio above
// growthLimit is reported; the limit leaves room for n log n and for constant
// start-up work, and a finding needs the larger run to have spent more ticks
// than start-up noise can explain.
const (
	growthLimit    = 9.0
	growthMinTicks = 1
	// below this many allocated bytes in the larger run nothing is said about
	// memory traffic (start-up allocations of the runtime dominate)
	growthMinAlloc = 8 << 20
)

type growthDim struct {
	name  string
	cmds  [][]string
	input func(n int) string
	// file: the n-sized data goes into a dictionary file instead of stdin
	file  string
	stdin string
	// big: also compared at a much larger n (one element costs little, and a
	// small quadratic coefficient only shows there)
	big bool
}

func repeatIdx(n int, f func(i int) string) string {
	var sb strings.Builder
	for i := 0; i < n; i++ {
		sb.WriteString(f(i))
	}
	return sb.String()
}

var growthDims = []growthDim{
	{name: "text-items", cmds: [][]string{{"text", "parse"}, {"text", "conv", "syllable"}},
		input: func(n int) string { return strings.Repeat("C[1] G_7/B[1,1/2]{txt=hi} Am[2]\n", n) }},
	{name: "text-items-degree", cmds: [][]string{{"text", "conv", "degree"}},
		input: func(n int) string { return strings.Repeat("1[1] 5_7/7[1,1/2]{txt=hi} 6m[2]\n", n) }},
	{name: "text-values", big: true, cmds: [][]string{{"text", "parse"}, {"text", "conv", "syllable"}},
		input: func(n int) string { return "C[1" + strings.Repeat(",1/2", n) + "]\n" }},
	{name: "text-meta", big: true, cmds: [][]string{{"text", "parse"}, {"text", "conv", "syllable"}},
		input: func(n int) string {
			return "C[1]{k0=v" + repeatIdx(n, func(i int) string { return fmt.Sprintf(",k%d=v%d", i+1, i) }) + "}\n"
		}},
	{name: "text-comments", cmds: [][]string{{"text", "parse"}},
		input: func(n int) string { return strings.Repeat("; a comment line\n", n) + "C[1]\n" }},
	{name: "text-long-comment", cmds: [][]string{{"text", "parse"}, {"text", "conv", "syllable"}},
		input: func(n int) string { return "; " + strings.Repeat("long line ", n) + "\nC[1]\n" }},
	{name: "text-long-symbol", cmds: [][]string{{"text", "parse"}, {"text", "conv", "syllable"}},
		input: func(n int) string { return "C" + strings.Repeat("mmmmmmmmmm", n) + "[1]\n" }},
	{name: "text-long-metadata", cmds: [][]string{{"text", "parse"}, {"text", "conv", "syllable"}},
		input: func(n int) string { return "C[1]{txt=" + strings.Repeat("la la la, ", 0) + strings.Repeat("la la la ", n) + "}\n" }},
	{name: "text-rests", cmds: [][]string{{"text", "parse"}, {"text", "conv", "syllable"}},
		input: func(n int) string { return strings.Repeat("R[1] ", n) + "C[1]\n" }},
	{name: "yaml-instances", cmds: [][]string{{"write"}, {"write", "event"}, {"write", "parse"}, {"write", "conv", "-c", "cmt"}, {"write", "--track", "3"}},
		input: func(n int) string {
			return strings.Repeat(goodInst+"- chord:\n    degree: \"5\"\n    name: \"7\"\n    base: \"3\"\n  values:\n    - \"1\"\n    - \"1/2\"\n  meta:\n    txt: hi\n- values:\n    - \"2\"\n", n)
		}},
	{name: "yaml-values", big: true, cmds: [][]string{{"write"}, {"write", "event"}, {"write", "parse"}},
		input: func(n int) string {
			return "- chord:\n    degree: \"1\"\n    name: \"\"\n  values:\n" + strings.Repeat("    - \"1/4\"\n", n)
		}},
	{name: "yaml-meta", big: true, cmds: [][]string{{"write"}, {"write", "event"}, {"write", "parse"}, {"write", "conv", "-c", "cmt"}},
		input: func(n int) string {
			return "- chord:\n    degree: \"1\"\n    name: \"\"\n  values:\n    - \"1\"\n  meta:\n" + repeatIdx(n, func(i int) string { return fmt.Sprintf("    k%d: v%d\n", i, i) })
		}},
	{name: "yaml-keychanges", cmds: [][]string{{"write"}, {"write", "event"}},
		input: func(n int) string {
			return repeatIdx(n, func(i int) string {
				k := []string{"C", "G", "Am", "Eb", "F#m"}[i%5]
				return "- chord:\n    degree: \"1\"\n    name: \"\"\n  values:\n    - \"1\"\n  key: \"" + k + "\"\n"
			})
		}},
	{name: "dict-chords", cmds: [][]string{{"info", "chord", "list"}, {"write"}, {"info", "chord", "describe", "-t", "Cx7"}},
		file: "--chord", stdin: "- chord:\n    degree: \"1\"\n    name: \"x7\"\n  values:\n    - \"1\"\n",
		input: func(n int) string {
			return repeatIdx(n, func(i int) string {
				return fmt.Sprintf("- name: X%d\n  meta:\n    display: x%d\n  extends: MajorTriad\n  attributes:\n    - Minor7\n", i, i)
			})
		}},
	{name: "dict-faulty-chords", cmds: [][]string{{"info", "chord", "list"}, {"write"}, {"info", "chord", "describe", "-t", "C"}},
		file: "--chord", stdin: "- chord:\n    degree: \"1\"\n    name: \"\"\n  values:\n    - \"1\"\n",
		input: func(n int) string {
			return repeatIdx(n, func(i int) string {
				switch i % 3 {
				case 0:
					return fmt.Sprintf("- name: Bad%d\n  meta:\n    display: bad%d\n  attributes:\n    - NoSuchAttribute%d\n", i, i, i)
				case 1:
					return fmt.Sprintf("- name: Bad%d\n  meta:\n    display: bad%d\n  extends: NoSuchChord%d\n", i, i, i)
				}
				return fmt.Sprintf("- name: Bad%d\n  meta:\n    display: bad%d\n  extends: Bad%d\n", i, i, i)
			})
		}},
	{name: "dict-faulty-attrs", cmds: [][]string{{"info", "attr", "list"}, {"write"}},
		file: "--attr", stdin: "- chord:\n    degree: \"1\"\n    name: \"\"\n  values:\n    - \"1\"\n",
		input: func(n int) string {
			return repeatIdx(n, func(i int) string { return fmt.Sprintf("- name: Zq%d\n  degree: \"x%d\"\n", i, i) })
		}},
	{name: "dict-attrs", cmds: [][]string{{"info", "attr", "list"}, {"write"}},
		file: "--attr", stdin: "- chord:\n    degree: \"1\"\n    name: \"\"\n  values:\n    - \"1\"\n",
		input: func(n int) string {
			return repeatIdx(n, func(i int) string {
				return fmt.Sprintf("- name: Zq%d\n  degree: \"%d\"\n", i, 1+i%13)
			})
		}},
}

func (p *C09) growthCases(seed uint64, tier string) {
	sizes := []int{400}
	if tier == "thorough" {
		sizes = []int{300, 1500, 5000}
	}
	bigN := 4000
	if tier == "thorough" {
		bigN = 20000
	}
	for _, n := range append(sizes, -1) {
		for _, d := range growthDims {
			if n < 0 && !d.big {
				continue
			}
			n := n
			if n < 0 {
				n = bigN
			}
			for _, cmd := range d.cmds {
				c := &Case{Property: "C09", Kind: "growth", Seed: seed, Run: 1_000_000 + len(p.cuts),
					Labels: []string{"fault:F8:overlong", "growth:" + d.name},
					Params: map[string]string{"dim": d.name, "n": fmt.Sprint(n)}}
				for _, k := range []int{n, 4 * n} {
					st := Step{Step: simrt.Step{Argv: append([]string{}, cmd...), Seed: seed + uint64(len(p.cuts))}}
					if d.file != "" {
						path := "/sim/grow.yml"
						st.Files = map[string]*simrt.FileSpec{path: {Data: []byte(d.input(k))}}
						st.Argv = append(st.Argv, d.file, path)
						if cmd[0] == "write" {
							st.Stdin = &simrt.Stream{Data: []byte(d.stdin)}
						}
					} else {
						st.Stdin = &simrt.Stream{Data: []byte(d.input(k))}
					}
					c.Steps = append(c.Steps, st)
				}
				p.cuts = append(p.cuts, c)
				p.ngrowth++
			}
		}
	}
}

// growthFindings compares the logical clocks of the two executions.
func growthFindings(c *Case, out *Outcome) []Finding {
	if len(out.Results) != 2 || out.Results[0] == nil || out.Results[1] == nil {
		return nil
	}
	a, b := out.Results[0], out.Results[1]
	cmd := CommandOf(c.Steps[0].Argv)
	if a.Hang() != "" || b.Hang() != "" || a.Crash() != "" || b.Crash() != "" {
		return nil // reported by the per-process rules
	}
	if a.OK() != b.OK() {
		return []Finding{{Signature: fmt.Sprintf("C09/growth/verdict-depends-on-length/%s/%s", c.Params["dim"], cmd),
			Detail: fmt.Sprintf("`crd %s` on %s repetitions: exit %d (%s); on four times as many: exit %d (%s)", strings.Join(c.Steps[0].Argv, " "), c.Params["n"], a.Exit, first(a.Stderr, 160), b.Exit, first(b.Stderr, 160))}}
	}
	ta, tb := ticksOf(a), ticksOf(b)
	if ta <= 0 || tb < growthMinTicks {
		return nil
	}
	ratio := float64(tb) / float64(ta)
	var ma, mb uint64
	if a.Journal != nil && b.Journal != nil {
		ma, mb = a.Journal.AllocBytes, b.Journal.AllocBytes
	}
	mratio := 0.0
	if ma > 0 {
		mratio = float64(mb) / float64(ma)
	}
	if GrowthTrace != nil {
		GrowthTrace(fmt.Sprintf("%-20s %-28s n=%s ticks %d -> %d ratio %.2f; allocated bytes %d -> %d ratio %.2f", c.Params["dim"], cmd, c.Params["n"], ta, tb, ratio, ma, mb, mratio))
	}
	if ratio <= growthLimit && mratio > growthLimit && mb > growthMinAlloc {
		return []Finding{{Signature: fmt.Sprintf("C09/hang/superlinear-memory-traffic/%s/%s", c.Params["dim"], cmd),
			Detail: fmt.Sprintf("`crd %s`: four times the input (%s -> 4x%s repetitions of the unit, %d -> %d bytes) makes the process allocate %.1f times the bytes (%d -> %d, runtime.MemStats.TotalAlloc at exit) while its own step count grows %.1f-fold: something copies or re-renders what it already had for every new element; linear or n log n work stays below %.0f", strings.Join(c.Steps[0].Argv, " "), c.Params["n"], c.Params["n"], inputLen(&c.Steps[0]), inputLen(&c.Steps[1]), mratio, ma, mb, ratio, growthLimit)}}
	}
	if ratio <= growthLimit {
		return nil
	}
	return []Finding{{Signature: fmt.Sprintf("C09/hang/superlinear/%s/%s", c.Params["dim"], cmd),
		Detail: fmt.Sprintf("`crd %s`: four times the input (%s -> 4x%s repetitions of the unit, %d -> %d bytes) costs %.1f times the steps (%d -> %d ticks of the logical clock); linear or n log n work stays below %.0f: the running time grows quadratically (or worse) with the length of the input", strings.Join(c.Steps[0].Argv, " "), c.Params["n"], c.Params["n"], inputLen(&c.Steps[0]), inputLen(&c.Steps[1]), ratio, ta, tb, growthLimit)}}
}

// GrowthTrace, when set, receives one line per growth comparison (driver -v).
var GrowthTrace func(string)

func inputLen(st *Step) int {
	n := 0
	if st.Stdin != nil {
		n += len(st.Stdin.Data)
	}
	for _, f := range st.Files {
		n += len(f.Data)
	}
	return n
}

// Zero-default cases: "a flag left at or set to its empty/zero default means
// 'no override'": the command with the flag at its zero value and the command
// without the flag give the same status and the same bytes.
var zeroDefaultFlags = [][2]string{{"--bpm", "0"}, {"--bpm", "00"}, {"--key", ""}, {"-k", ""}, {"--meter", ""}, {"--velocity", ""}, {"--program", "0"}}

func (p *C09) zeroDefaultCases(seed uint64) {
	docs := []string{
		goodInst + "- chord:\n    degree: \"5\"\n    name: \"7\"\n    base: \"3\"\n  values:\n    - \"1\"\n    - \"1/2\"\n  meta:\n    txt: hi\n- values:\n    - \"2\"\n",
		"- chord:\n    degree: \"1\"\n    name: \"m\"\n  values:\n    - \"1\"\n  bpm: 90\n  key: \"Eb\"\n  meter: \"3/4\"\n  velocity: \"pp\"\n" + goodInst,
		"- values:\n    - \"1\"\n" + goodInst,
	}
	for _, cmd := range [][]string{{"write"}, {"write", "event"}, {"write", "parse"}, {"write", "conv", "-c", "cmt"}} {
		for _, fv := range zeroDefaultFlags {
			for di, doc := range docs {
				c := &Case{Property: "C09", Kind: "zerodefault", Seed: seed, Run: 1_000_000 + len(p.cuts),
					Labels: []string{"fault:F11:flag:" + fv[0], "zero-default"}, Params: map[string]string{"flag": fv[0], "value": fv[1]}}
				a := Step{Step: simrt.Step{Argv: append([]string{}, cmd...), Seed: seed + uint64(di), Stdin: &simrt.Stream{Data: []byte(doc)}}}
				b := Step{Step: simrt.Step{Argv: append(append([]string{}, cmd...), fv[0], fv[1]), Seed: seed + uint64(di), Stdin: &simrt.Stream{Data: []byte(doc)}}}
				c.Steps = []Step{a, b}
				p.cuts = append(p.cuts, c)
				p.ngrowth++
			}
		}
	}
}

func zeroDefaultFindings(c *Case, out *Outcome) []Finding {
	if len(out.Results) != 2 || out.Results[0] == nil || out.Results[1] == nil {
		return nil
	}
	a, b := out.Results[0], out.Results[1]
	if a.Hang() != "" || b.Hang() != "" || a.Crash() != "" || b.Crash() != "" {
		return nil
	}
	cmd := CommandOf(c.Steps[0].Argv)
	if a.Exit == b.Exit && bytes.Equal(a.Stdout, b.Stdout) {
		return nil
	}
	return []Finding{{Signature: fmt.Sprintf("C09/zero-default-is-an-override/%s/%s", c.Params["flag"], cmd),
		Detail: fmt.Sprintf("`crd %s` and the same command without %s %q differ (exit %d, %d bytes %q vs exit %d, %d bytes %q): the flag at its empty/zero default must mean 'no override'", strings.Join(c.Steps[1].Argv, " "), c.Params["flag"], c.Params["value"], b.Exit, len(b.Stdout), first(b.Stdout, 80), a.Exit, len(a.Stdout), first(a.Stdout, 80))}}
}
