package harness

import (
	"bytes"
	"fmt"
	"runtime"
	"sync"
	"strings"

	"verif/sim/model"
	"verif/sim/simrt"
)

// C12 — same command, same input, same bytes: on every run, schedule, map
// order, delivery, with or without --debug, on every input and output path.
//
// A case is a family: step 0 is the identity execution, every other step
// differs from it in exactly the dimension named by its Note.
type C12 struct {
	w     Workload
	stats *Stats
}

func NewC12(st *Stats) *C12 { return &C12{stats: st} }

func (p *C12) ID() string    { return "C12" }
func (p *C12) Level() string { return "exploration" }

func (p *C12) Prepare(env *Env, tier string, seed uint64) error { return p.w.Load(env) }

func (p *C12) Runs(tier string) int {
	if tier == "thorough" {
		return 60000
	}
	return 2600
}

const inPath = "/sim/in.txt"
const outPath = "/sim/out.bin"

// oddNames: file names with characters that mean something to a shell, to
// environment expansion, to globbing, to URL or printf-style decoding.
var oddNames = []string{"/sim/in$1.yml", "/sim/price-5$USD.txt", "/sim/${HOME}.txt", "/sim/my piece.txt", "/sim/~in.txt", "/sim/in%20x%s.yml",
	"/sim/piece[1].txt", "/sim/päce ♯.txt", "/sim/in*.txt", "/sim/in?.txt", "/sim/a#b.txt", "/sim/in.txt;x", "/sim/in\\x.txt", "/sim/{a,b}.txt", "/sim/-in.txt", "/sim/in.txt ", "/sim/C:in.txt", "/sim/in'q\".txt",
	// names that look like something else than they are
	"/sim/in.txt.gz", "/sim/piece.yml.bz2", "/sim/in.zip", "/sim/in.json", "/sim/in.mid", "/sim/http:in.txt"}

func (p *C12) Generate(seed uint64, run int) *Case {
	r := model.NewRand(seed, fmt.Sprintf("C12/%d", run))
	var b Base
	big := r.Chance(1, 40)
	switch r.Intn(10) {
	case 0, 1, 2:
		b = p.w.GenText(r, big)
		if !big && r.Chance(1, 3) {
			// medium-size pieces (a few dozen items, several modulations): enough
			// for work to be split, batched or buffered
			n := 16 + r.Intn(60)
			if r.Chance(1, 6) {
				n = 190 + r.Intn(300) // several hundred items
			}
			b = p.w.GenTextN(r, n)
		}
	case 3, 4, 5:
		b = p.w.GenDocCmd(r, big)
	default:
		b = p.w.GenInfo(r)
	}
	c := &Case{Property: "C12", Kind: "family", Seed: seed, Run: run}
	if run%900 == 11 {
		// a result above a mebibyte (a text of a few thousand items)
		b = p.w.GenTextN(r, 2300+r.Intn(500))
		b.Argv = []string{"text", "parse"}
		c.Labels = append(c.Labels, "output-above-mebibyte")
	}
	if run%600 == 17 {
		// five hundred to a thousand items converted in syllable mode, with
		// modulations: work split by size shares the converter's state (w17-C12-3)
		// (notes common to all the keys used, so that every item converts)
		var sb strings.Builder
		n, next := 520+r.Intn(700), 20+r.Intn(60)
		for i := 0; i < n; i++ {
			if r.Chance(1, 12) {
				sb.WriteString("R[1/2]")
			} else {
				sb.WriteString(model.Pick(r, []string{"C", "D", "E", "G", "A"}) + model.Pick(r, []string{"", "m", "_7"}) + model.Pick(r, []string{"[1]", "[1/2]", "[2,1/4]"}))
			}
			if i == next {
				sb.WriteString("{key=" + model.Pick(r, []string{"C", "G", "F", "Am", "Em", "Dm"}) + "}")
				next += 20 + r.Intn(120)
			}
			sb.WriteString(model.Pick(r, []string{" ", " ", "\n"}))
		}
		b = Base{Argv: []string{"text", "conv", "syllable", "--key", model.Pick(r, []string{"C", "G", "F", "Am"})}, Input: []byte(sb.String()), InputArg: true, Class: "text"}
		c.Labels = append(c.Labels, "long-piece-converted")
	}
	if run%650 == 13 {
		// track counts around the limits of the header and of the reader
		pinned := [][]string{{"write", "--track", "32769"}, {"write", "--track", "65535"}, {"write", "event", "--track", "32767"}, {"write", "--track", "40000"}, {"write", "--track", "32768"}}
		b = Base{Argv: append([]string{}, pinned[(run/650)%len(pinned)]...), Input: []byte(goodInst + "- values:\n    - \"1\"\n"), InputArg: true, Class: "doc", Tracks: 40000}
		c.Labels = append(c.Labels, "track-count-at-the-limits")
	}
	if run%1300 == 7 {
		// an input just above a round size (1 MiB, 4 MiB), most of it comments
		b = padInput(r, b, p.w, []int{4 << 20, 1 << 20}[(run/1300)%2])
		c.Labels = append(c.Labels, "input:above-round-size")
	}
	// byte-level shapes an input path might treat differently from another
	if _, padded := c.HasLabel("input:above-round-size"); b.Input != nil && !padded {
		switch r.Intn(40) {
		case 5, 6:
			// nothing at all on the input (stdin may be /dev/null, FILE an empty file)
			b.Input = []byte{}
			c.Labels = append(c.Labels, "input:empty")
		case 0:
			b.Input = append([]byte("\xef\xbb\xbf"), b.Input...)
			c.Labels = append(c.Labels, "input:bom")
		case 1:
			b.Input = bytes.ReplaceAll(b.Input, []byte("\n"), []byte("\r\n"))
			c.Labels = append(c.Labels, "input:crlf")
		case 2:
			b.Input = bytes.TrimRight(b.Input, "\n")
			c.Labels = append(c.Labels, "input:no-final-newline")
		case 3:
			b.Input = append(b.Input, []byte("\n\n\n")...)
			c.Labels = append(c.Labels, "input:extra-newlines")
		case 4:
			b.Input = append(b.Input, 0x1a)
			c.Labels = append(c.Labels, "input:ctrl-z")
		case 7, 8:
			// bytes that are not UTF-8 (a Latin-1 lyric, a stray continuation byte)
			b.Input = faultBadUTF8(r, b.Input)
			c.Labels = append(c.Labels, "input:invalid-utf8")
		}
	}
	if r.Chance(1, 3) {
		// an option this tree has and the pinned commit has not (from its help text)
		if name := p.w.WithNewFlag(r, &b); name != "" {
			c.Labels = append(c.Labels, "new-flag:"+name)
		}
	}
	// the pinned families (megabyte inputs, limit track counts) stay as they
	// are: no broken input, no dictionaries on top
	_, pinnedA := c.HasLabel("input:above-round-size")
	_, pinnedB := c.HasLabel("track-count-at-the-limits")
	pinned := pinnedA || pinnedB
	// one run in five: an input that makes the command fail
	if b.Input != nil && !pinned && r.Chance(1, 5) {
		b.Input = breakInput(r, &b)
		c.Labels = append(c.Labels, "failing-input")
	}
	if pinned {
		// nothing added
	} else if b.Class != "gen" && b.Class != "text" && r.Chance(1, 4) {
		p.w.WithDict(r, &b)
		c.Labels = append(c.Labels, "user-dictionary")
		if cmd := CommandOf(b.Argv); (cmd == "info chord list" || cmd == "info attr list") && r.Chance(1, 3) {
			// a listing does not have to validate what it lists; whether it does
			// must not depend on anything but the arguments
			if f := b.Files["/sim/chords.yml"]; f != nil {
				cp := *f
				cp.Data = append(append([]byte{}, f.Data...), []byte("- name: Dangling\n  meta:\n    display: dang\n  attributes:\n    - NoSuchAttribute\n- name: Orphan\n  meta:\n    display: orph\n  extends: NoSuchChord\n")...)
				b.Files["/sim/chords.yml"] = &cp
				c.Labels = append(c.Labels, "listing-of-inconsistent-dictionary")
			}
		}
	} else if (b.Class == "doc" || b.Class == "info") && r.Chance(1, 30) {
		// a DIRECTORY given as dictionary (the pinned tree refuses it; a tree that
		// reads every file in it must not depend on the order the OS lists them in)
		if b.Files == nil {
			b.Files = map[string]*simrt.FileSpec{}
		}
		for i, attrs := range [][]string{{"Perfect1", "Major3", "Perfect5"}, {"Perfect1", "Minor3", "Perfect5"}, {"Perfect1", "Perfect4", "Perfect5"}, {"Perfect1", "Major2"}} {
			y := "- name: DirChord\n  meta:\n    display: dirc\n  attributes:\n"
			for _, a := range attrs {
				y += "    - " + a + "\n"
			}
			b.Files[fmt.Sprintf("/sim/dicts/%c%d.yml", "dabc"[i], i)] = &simrt.FileSpec{Data: []byte(y)}
		}
		b.Argv = append(b.Argv, "--chord", "/sim/dicts")
		if b.Class == "doc" {
			b.Input = append(b.Input, []byte("- chord:\n    degree: \"1\"\n    name: \"dirc\"\n  values:\n    - \"1\"\n")...)
		}
		c.Labels = append(c.Labels, "dictionary-directory")
	} else if b.Class == "doc" && r.Chance(1, 25) {
		// a dictionary named relatively: it exists beside the input FILE, not in
		// the working directory (every input path must treat the name alike)
		// (self-contained: built-in attributes only)
		chordY := "- name: RelChord\n  meta:\n    display: rel\n  attributes:\n    - Perfect1\n    - Major2\n    - Perfect5\n"
		names := []string{"RelChord", "rel"}
		b.Files = map[string]*simrt.FileSpec{"/sim/piece/chords.yml": {Data: []byte(chordY)}}
		b.Argv = append(b.Argv, "--chord", "chords.yml")
		b.Input = append(b.Input, []byte("- chord:\n    degree: \"1\"\n    name: \""+model.Pick(r, names[:2])+"\"\n  values:\n    - \"1\"\n")...)
		c.Labels = append(c.Labels, "relative-dictionary")
	}
	if _, heavy := c.HasLabel("input:above-round-size"); heavy {
		// a reduced family: only the input paths (every process has to read
		// megabytes rune by rune; --debug would log every rune)
		base := b.StepOf(r.U64())
		base.Note = "base"
		c.Steps = append(c.Steps, base)
		for _, note := range []string{"inpath:dash", "inpath:file", "inpath:fifo", "delivery"} {
			st := b.StepOf(r.U64())
			st.Note = note
			switch note {
			case "inpath:dash":
				st.Argv = append(st.Argv, "-")
			case "delivery":
				st.Stdin.Plan = simrt.Plan{Chunks: []int{65536, 4096, 1 << 20}, EOFWithData: true}
			default:
				st.Argv = append(st.Argv, inPath)
				st.Files = cloneFiles(st.Files) // the dictionaries of the command stay
				st.Files[inPath] = &simrt.FileSpec{Data: st.Stdin.Data, Plan: simrt.Plan{Chunks: []int{1 << 16}}, Pipe: note == "inpath:fifo"}
				st.Stdin = nil
			}
			c.Steps = append(c.Steps, st)
		}
		return c
	}
	cpus := model.Pick(r, []int{2, 4, 8, 16})
	if len(b.Input) > 8000 && r.Chance(1, 2) {
		// larger inputs also under many CPUs (work split into more pieces)
		cpus = model.Pick(r, []int{13, 14, 15, 16, 32})
	}
	base := b.StepOf(r.U64())
	base.Note = "base"
	base.CPUs = cpus
	c.Steps = append(c.Steps, base)
	add := func(note string, f func(st *Step)) {
		st := b.StepOf(r.U64())
		st.Note = note
		st.CPUs = cpus
		f(&st)
		c.Steps = append(c.Steps, st)
	}
	add("maporder", func(st *Step) { st.MapPolicy = "reverse" })
	add("maporder", func(st *Step) { st.MapPolicy = model.Pick(r, []string{"rotate", "shuffle", "shuffle"}) })
	if b.Class == "text" || r.Chance(1, 4) {
		add("sched", func(st *Step) { st.SchedPolicy = "random" })
		add("sched", func(st *Step) { st.SchedPolicy = "rtb-high" })
		add("sched", func(st *Step) { st.SchedPolicy = model.Pick(r, schedPolicies[2:]) })
	}
	if b.Class == "text" || len(b.Input) > 8000 || r.Chance(1, 4) {
		// pre-emption between any two statements (unsynchronised code of two
		// goroutines interleaves freely), under several CPU counts
		add("sched:preempt", func(st *Step) {
			st.SchedPolicy = "random"
			st.PreemptEvery = model.Pick(r, []int{2, 5, 17, 61})
		})
		add("sched:preempt", func(st *Step) {
			st.SchedPolicy = model.Pick(r, schedPolicies)
			st.PreemptEvery = model.Pick(r, []int{3, 11, 29})
			st.CPUs = model.Pick(r, []int{2, 3, 4, 8, 16})
		})
	}
	if r.Chance(1, 2) {
		add("maporder+sched", func(st *Step) {
			st.MapPolicy = "shuffle"
			st.SchedPolicy = model.Pick(r, schedPolicies[1:])
		})
	}
	add("cpus", func(st *Step) { st.CPUs = 1 })
	if r.Chance(1, 2) {
		add("cpus", func(st *Step) {
			st.CPUs = model.Pick(r, []int{2, 3, 5, 6, 7, 12, 13, 14, 15, 16, 24, 64})
			st.SchedPolicy = model.Pick(r, schedPolicies)
		})
	}
	add("debug", func(st *Step) { st.Argv = append([]string{"--debug"}, st.Argv...) })
	if r.Chance(1, 3) {
		// the flag given twice is still the flag
		add("debug", func(st *Step) { st.Argv = append(append([]string{"--debug"}, st.Argv...), "--debug") })
	}
	if b.Input != nil {
		add("delivery", func(st *Step) { st.Stdin.Plan = GenPlan(r) })
		if r.Chance(1, 2) {
			add("delivery", func(st *Step) { st.Stdin.Plan = simrt.Plan{Chunks: []int{1}, EOFWithData: r.Chance(1, 2)} })
		}
		if r.Chance(1, 2) {
			// a slow upstream: same bytes, late
			add("delivery:slow", func(st *Step) {
				st.Stdin.Plan = GenPlan(r)
				st.Stdin.Plan.DelaysUs = GenDelays(r)
			})
		}
		add("inpath:dash", func(st *Step) { st.Argv = append(st.Argv, "-") })
		if r.Chance(1, 3) {
			// standard input is a redirected regular file rather than a pipe
			add("inpath:redirect", func(st *Step) { st.Stdin.Kind = "file" })
		}
		if r.Chance(1, 4) {
			// ... whose first line was already consumed by somebody else
			add("inpath:redirect-offset", func(st *Step) {
				hdr := []byte("# a header line that another reader has already consumed: C[1] [ ] { } - x: y\n")
				st.Stdin.Data = append(hdr, st.Stdin.Data...)
				st.Stdin.Kind = "file"
				st.Stdin.Offset = len(hdr)
			})
		}
		if len(b.Input) == 0 {
			add("inpath:devnull", func(st *Step) { st.Stdin.Kind = "chardev" })
		}
		add("inpath:file", func(st *Step) {
			path := inPath
			if _, rel := c.HasLabel("relative-dictionary"); rel {
				path = "/sim/piece/in.yml"
			} else if r.Chance(1, 3) {
				// a file name is a name, whatever characters it has
				path = model.Pick(r, oddNames)
			}
			st.Argv = append(st.Argv, path)
			if st.Files == nil {
				st.Files = map[string]*simrt.FileSpec{}
			}
			st.Files[path] = &simrt.FileSpec{Data: st.Stdin.Data, Plan: GenPlan(r)}
			st.Stdin = nil
		})
	}
	if b.Input != nil && r.Chance(1, 4) {
		// the result is written over the very file the input comes from
		add("outpath:onto-input", func(st *Step) {
			st.Argv = append(st.Argv, inPath, "-o", inPath)
			if st.Files == nil {
				st.Files = map[string]*simrt.FileSpec{}
			}
			st.Files[inPath] = &simrt.FileSpec{Data: st.Stdin.Data, Plan: GenPlan(r)}
			st.Stdin = nil
		})
	}
	if b.Input != nil && r.Chance(1, 3) {
		// FILE is a named pipe / process substitution: size 0, bytes arrive in pieces
		add("inpath:fifo", func(st *Step) {
			st.Argv = append(st.Argv, inPath)
			if st.Files == nil {
				st.Files = map[string]*simrt.FileSpec{}
			}
			pl := GenPlan(r)
			if len(pl.Chunks) == 0 {
				pl.Chunks = []int{512, 1, 4096}
			}
			st.Files[inPath] = &simrt.FileSpec{Data: st.Stdin.Data, Plan: pl, Pipe: true}
			st.Stdin = nil
		})
	}
	if r.Chance(1, 4) {
		// -o names a symbolic link to a file in another directory
		add("outpath:symlink", func(st *Step) {
			st.Argv = append(st.Argv, "-o", "/sim/link.bin")
			st.Files = cloneFiles(st.Files)
			st.Files["/sim/link.bin"] = &simrt.FileSpec{SymlinkTo: "/sim/elsewhere/real.bin"}
			st.Files["/sim/elsewhere/.keep"] = &simrt.FileSpec{Data: []byte{}}
		})
	}
	if r.Chance(1, 4) {
		add("outpath:odd-name", func(st *Step) {
			st.Argv = append(st.Argv, "-o", strings.Replace(model.Pick(r, oddNames), "/sim/", "/sim/out/", 1))
			st.Files = cloneFiles(st.Files)
			st.Files["/sim/out/.keep"] = &simrt.FileSpec{Data: []byte{}}
		})
	}
	if r.Chance(1, 3) {
		// the -o target exists and BEGINS with what the command is about to write
		// (an earlier, longer result of the same command); filled in by Evaluate
		add("outpath:existing-prefix", func(st *Step) {
			st.Argv = append(st.Argv, "-o", outPath)
			st.Files = cloneFiles(st.Files)
			st.Files[outPath] = &simrt.FileSpec{Data: []byte("- name: Tail\n  degree: \"1\"\nTrack 9\t@0(0)\tMetaText text: tail\n" + strings.Repeat("tail of the earlier result\n", 1+r.Intn(200)))}
		})
	}
	if _, big := c.HasLabel("output-above-mebibyte"); big {
		add("outpath", func(st *Step) {
			st.Argv = append(st.Argv, "-o", outPath)
			st.Files = cloneFiles(st.Files)
			st.Files[outPath] = &simrt.FileSpec{Pipe: true}
		})
	}
	add("outpath", func(st *Step) {
		st.Argv = append(st.Argv, "-o", outPath)
		if r.Chance(1, 2) {
			// the -o target already exists and is longer than anything crd writes here
			withExistingOutput(r, st)
		} else if r.Chance(1, 3) {
			// the -o target is a FIFO (or /dev/stdout on a pipe): no seeking, no fsync
			if st.Files == nil {
				st.Files = map[string]*simrt.FileSpec{}
			}
			st.Files[outPath] = &simrt.FileSpec{Pipe: true}
		} else if r.Chance(1, 2) {
			// the -o target lives on another file system than the temp directory
			if st.Files == nil {
				st.Files = map[string]*simrt.FileSpec{}
			}
			st.Files[outPath] = &simrt.FileSpec{RenameErr: "EXDEV"}
		}
	})
	if r.Chance(1, 3) {
		// whoever consumes the result is slow (a pager, a sleeping reader behind
		// a full pipe, a network file system): same bytes, same status
		add("outpath:slow", func(st *Step) {
			wp := &simrt.WritePlan{DelaysUs: GenDelays(r)}
			if r.Chance(1, 2) {
				st.Stdout = wp
				st.Note = "stdout:slow"
			} else {
				st.Argv = append(st.Argv, "-o", outPath)
				st.Files = cloneFiles(st.Files)
				st.Files[outPath] = &simrt.FileSpec{WritePlan: wp}
			}
			st.SchedPolicy = model.Pick(r, schedPolicies)
		})
	}
	if r.Chance(1, 3) {
		// the command is run from an interactive shell: standard output is a
		// terminal and the result goes to the -o file. (What a command shows ON a
		// terminal is not compared: colouring for a terminal is a rendition a
		// tree may choose; what it writes into a file is the result.)
		add("outpath:tty", func(st *Step) {
			st.StdoutTTY = true
			st.Argv = append(st.Argv, "-o", outPath)
		})
	}
	if r.Chance(1, 3) {
		// standard output is a regular file that already holds data (>> log)
		add("stdout:file-append", func(st *Step) {
			st.Stdout = &simrt.WritePlan{Kind: "file", Existing: model.Pick(r, []int{1, 17, 4096, 100000})}
		})
	}
	if r.Chance(1, 3) {
		// the log is read slowly (stderr to a pager or a slow terminal)
		add("debug:slow-log", func(st *Step) {
			st.Argv = append([]string{"--debug"}, st.Argv...)
			st.Stderr = &simrt.WritePlan{DelaysUs: GenDelays(r)}
			st.SchedPolicy = model.Pick(r, schedPolicies)
		})
	}
	if r.Chance(1, 3) {
		add("maporder+outpath", func(st *Step) {
			st.Argv = append(st.Argv, "-o", outPath)
			st.MapPolicy = "shuffle"
		})
	}
	if _, hasDict := c.HasLabel("user-dictionary"); hasDict && r.Chance(1, 2) {
		// history: an earlier run of the same command saw dictionaries of the same
		// paths and sizes but other content; whatever it left behind (a cache, an
		// output file) still exists when the command runs again
		warm := len(c.Steps)
		add("history:warm-up", func(st *Step) {
			for k, f := range st.Files {
				if strings.HasSuffix(k, ".yml") {
					d := bytes.ReplaceAll(f.Data, []byte("Major3"), []byte("Minor3"))
					d = bytes.ReplaceAll(d, []byte("Perfect5"), []byte("Perfect4"))
					d = bytes.ReplaceAll(d, []byte("\"b10\""), []byte("\"#10\""))
					d = bytes.ReplaceAll(d, []byte("Major9"), []byte("Minor9"))
					cp := *f
					cp.Data = d
					st.Files[k] = &cp
				}
			}
		})
		add("history", func(st *Step) { st.CarryFrom = &warm })
	}
	if b.Input != nil && r.Chance(1, 4) {
		// history: an earlier run of the command with the same -o FAILED (a
		// broken input); whatever it left behind is still there when the good
		// command runs
		warm := len(c.Steps)
		add("history:warm-up", func(st *Step) {
			st.Argv = append(st.Argv, "-o", outPath)
			bb := Base{Class: b.Class, Input: append([]byte{}, b.Input...)}
			switch b.Class {
			case "text":
				st.Stdin.Data = append(append([]byte{}, b.Input...), []byte(" ]] [")...)
			default:
				st.Stdin.Data = append([]byte("{ not yaml: [\n"), bb.Input...)
			}
		})
		add("history", func(st *Step) {
			st.Argv = append(st.Argv, "-o", outPath)
			st.CarryFrom = &warm
		})
	}
	// the real runtime: two plain repetitions (not replayable; see Appendix B)
	add("plain", func(st *Step) { st.Plain = true })
	add("plain", func(st *Step) { st.Plain = true })
	return c
}

// padInput returns a command whose input is just above size bytes long, the
// bulk being comments (cheap to read, no output).
func padInput(r *model.Rand, b Base, w Workload, size int) Base {
	// a small input every version of the command accepts, so that the paths
	// can differ only in how they treat the size
	if r.Chance(1, 2) {
		b = Base{Argv: []string{"text", "conv", "syllable", "--key", "G"}, Input: []byte("G[1] D_7/F#[1,1/2]{txt=hi} Em[2] R[1]\nC[2]{key=C}"), InputArg: true, Class: "text"}
	} else {
		b = Base{Argv: []string{"write", model.Pick(r, []string{"parse", "event"})}, Input: []byte(goodInst + "- values:\n    - \"2\"\n" + goodInst), InputArg: true, Class: "doc", Tracks: 1}
	}
	extra := size + 1 + r.Intn(4096) - len(b.Input)
	if extra <= 0 {
		return b
	}
	line := "; padding comment line, nothing to see here ......................................\n"
	if b.Class == "doc" {
		line = "# padding comment line, nothing to see here .......................................\n"
	}
	pad := strings.Repeat(line, extra/len(line)+1)
	cut := len(b.Input) / 2
	if b.Class == "doc" {
		// between two instances
		if i := bytes.Index(b.Input[cut:], []byte("\n- ")); i >= 0 {
			cut += i + 1
		} else {
			cut = len(b.Input)
		}
	} else {
		// between two items (after white space outside metadata is hard to find cheaply: append)
		cut = len(b.Input)
		pad = "\n" + pad
	}
	in := append([]byte{}, b.Input[:cut]...)
	in = append(in, pad...)
	in = append(in, b.Input[cut:]...)
	b.Input = in
	return b
}

// breakInput makes an input the command will refuse (not by truncation
// inside a token: that is C09/C04's subject).
func breakInput(r *model.Rand, b *Base) []byte {
	s := string(b.Input)
	if len(s) > 2 && r.Chance(1, 3) {
		// the input simply stops (the upstream died): inside a token, inside a
		// quoted scalar, between two items; what is left may or may not be valid
		if b.Class == "doc" && r.Chance(1, 2) {
			var quotes []int
			for i := 0; i < len(s); i++ {
				if s[i] == '"' {
					quotes = append(quotes, i)
				}
			}
			if len(quotes) >= 2 {
				q := quotes[2*r.Intn(len(quotes)/2)] // an opening quote
				return []byte(s[:q+1+r.Intn(2)])
			}
		}
		return faultTruncate(r, b.Input, b.Class)
	}
	if b.Class == "text" {
		switch r.Intn(5) {
		case 0:
			return []byte(s + " ]")
		case 1:
			return []byte("[1] " + s)
		case 2:
			return []byte(s + " C[1] 1[1]")
		case 3:
			return []byte(s + " Q[1]")
		default:
			return []byte(s + " C[0]")
		}
	}
	switch r.Intn(4) {
	case 0:
		return []byte(s + "- chord:\n    degree: \"1\"\n    name: \"nosuchchord\"\n  values:\n    - \"1\"\n")
	case 1:
		return []byte(s + "- values: []\n")
	case 2:
		return []byte(s + "- values:\n    - \"1/0\"\n")
	default:
		return []byte("{" + s)
	}
}

// withExistingOutput makes the -o target a file that already exists.
func withExistingOutput(r *model.Rand, st *Step) {
	if st.Files == nil {
		st.Files = map[string]*simrt.FileSpec{}
	}
	old := bytes.Repeat([]byte("previous content of the output file\n"), 50+r.Intn(3000))
	st.Files[outPath] = &simrt.FileSpec{Data: old}
}

func isOutVariant(st *Step) bool { return outArg(st.Argv) != "" }

func resultBytes(st *Step, r *Result) []byte {
	if o := outArg(st.Argv); o != "" {
		if f := st.Files[o]; f != nil && f.SymlinkTo != "" {
			// what a reader of the -o name sees: the link's target if the link was
			// followed, the file that replaced the link if it was renamed over
			if b, ok := r.Created[o]; ok {
				return b
			}
			return r.Created[f.SymlinkTo]
		}
		return r.Created[o]
	}
	return r.Stdout
}

func cloneFiles(m map[string]*simrt.FileSpec) map[string]*simrt.FileSpec {
	out := map[string]*simrt.FileSpec{}
	for k, v := range m {
		out[k] = v
	}
	return out
}

func dimOf(note string) string {
	switch {
	case strings.HasPrefix(note, "stdout"):
		return "stdout"
	case strings.HasPrefix(note, "debug"):
		return "debug"
	case strings.HasPrefix(note, "inpath"):
		return "inpath"
	case strings.HasPrefix(note, "outpath"):
		return "outpath"
	case strings.HasPrefix(note, "maporder"):
		return "maporder"
	case strings.HasPrefix(note, "delivery"):
		return "delivery"
	case strings.HasPrefix(note, "sched"):
		return "sched"
	case strings.HasPrefix(note, "history"):
		return "history"
	}
	return note
}

func (p *C12) Evaluate(env *Env, c *Case) (*Outcome, error) {
	out := &Outcome{Results: make([]*Result, len(c.Steps))}
	prepared := make([]*Step, len(c.Steps)+1)
	if _, heavy := c.HasLabel("input:above-round-size"); heavy {
		// the few processes of a megabyte-sized family run side by side
		var wg sync.WaitGroup
		errs := make([]error, len(c.Steps))
		for i := range c.Steps {
			wg.Add(1)
			go func() {
				defer wg.Done()
				out.Results[i], errs[i] = env.Exec(&c.Steps[i])
			}()
		}
		wg.Wait()
		for _, err := range errs {
			if err != nil {
				return nil, err
			}
		}
	} else {
		for i := range c.Steps {
			st := c.Steps[i]
			prepared[i] = &st
			if st.CarryFrom != nil && *st.CarryFrom < i && out.Results[*st.CarryFrom] != nil {
				// durable state: what the earlier run created is still there
				files := map[string]*simrt.FileSpec{}
				for k, v := range st.Files {
					files[k] = v
				}
				for name, data := range out.Results[*st.CarryFrom].Created {
					if _, defined := files[name]; !defined {
						files[name] = &simrt.FileSpec{Data: append([]byte{}, data...)}
					}
				}
				st.Files = files
			}
			if st.Note == "outpath:existing-prefix" && out.Results[0] != nil && out.Results[0].OK() {
				if f := st.Files[outPath]; f != nil {
					cp := *f
					cp.Data = append(append([]byte{}, out.Results[0].Stdout...), f.Data...)
					st.Files = cloneFiles(st.Files)
					st.Files[outPath] = &cp
				}
			}
			r, err := env.Exec(&st)
			if err != nil {
				return nil, err
			}
			out.Results[i] = r
		}
	}
	base := out.Results[0]
	cmd := CommandOf(c.Steps[0].Argv)
	type mm struct {
		i    int
		what string
	}
	var mms []mm
	for i := 1; i < len(c.Steps); i++ {
		st, r := &c.Steps[i], out.Results[i]
		if st.Note == "history:warm-up" {
			continue // another input: only there to leave state behind
		}
		// a variant that carries an injected fault (rename onto the -o target
		// fails with EXDEV) may legitimately end in a signalled failure; what it
		// may not do is exit 0 with a missing or different result
		if f, ok := st.Files[outPath]; ok && f.RenameErr != "" && base.OK() && !r.OK() &&
			r.Crash() == "" && r.Hang() == "" && len(bytes.TrimSpace(r.Stderr)) > 0 {
			continue
		}
		if r.OK() != base.OK() {
			mms = append(mms, mm{i, "status"})
			continue
		}
		if base.OK() {
			if !bytes.Equal(resultBytes(st, r), base.Stdout) {
				mms = append(mms, mm{i, "result"})
			}
		} else if !isOutVariant(st) {
			if !bytes.Equal(r.Stdout, base.Stdout) {
				mms = append(mms, mm{i, "stdout-on-failure"})
			}
		}
	}
	if len(mms) == 0 {
		return out, nil
	}
	// Appendix B: a scenario must agree with itself before it is believed.
	simFinding := false
	for _, m := range mms {
		st := &c.Steps[m.i]
		if st.Plain {
			continue
		}
		for _, idx := range []int{0, m.i} {
			for rep := 0; rep < 2; rep++ {
				again := &c.Steps[idx]
				if prepared[idx] != nil {
					again = prepared[idx]
				}
				r2, err := env.Exec(again)
				if err != nil {
					return nil, err
				}
				r1 := out.Results[idx]
				if r2.Exit != r1.Exit || !bytes.Equal(r2.Stdout, r1.Stdout) || !bytes.Equal(resultBytes(&c.Steps[idx], r2), resultBytes(&c.Steps[idx], r1)) {
					return nil, Infraf("SIMULATOR-INCOMPLETE: %q is nondeterministic under a fixed scenario (step %d of run %d): %q vs %q",
						strings.Join(c.Steps[idx].Argv, " "), idx, c.Run, first(r1.Stdout, 200), first(r2.Stdout, 200))
				}
			}
		}
		simFinding = true
		dim := dimOf(st.Note)
		out.Findings = append(out.Findings, Finding{
			Signature: fmt.Sprintf("C12/%s/%s/%s", dim, m.what, cmd),
			Detail: fmt.Sprintf("variant %q of `crd %s` (step %d) disagrees with the identity execution: %s; base exit=%d stdout=%q; variant exit=%d result=%q",
				st.Note, strings.Join(c.Steps[0].Argv, " "), m.i, m.what, base.Exit, first(base.Stdout, 160), out.Results[m.i].Exit, first(resultBytes(st, out.Results[m.i]), 160)),
		})
	}
	if !simFinding {
		// Only the real runtime disagrees. Before calling the simulator
		// incomplete, look harder inside it: more schedules, map orders and CPU
		// counts for this very family (the real runtime may simply have taken an
		// interleaving none of the few variants took).
		m := mms[0]
		esc := model.NewRand(c.Seed, fmt.Sprintf("C12/escalate/%d", c.Run))
		pols := []string{"rtb-high", "random", "rtb-random", "prefer-high", "mostly-high", "round-robin", "random", "mostly-low", "rtb-random", "prefer-low"}
		for k := 0; k < 24; k++ {
			st := c.Steps[0]
			st.Note = "sched"
			st.Seed = esc.U64()
			st.SchedPolicy = pols[k%len(pols)]
			// the real runtime saw the host's CPU count
			st.CPUs = []int{runtime.NumCPU(), runtime.NumCPU(), 1, 2, 3, 4, 8, 64}[k%8]
			if k%2 == 1 {
				st.MapPolicy = "shuffle"
				st.Note = "maporder+sched"
			}
			r, err := env.Exec(&st)
			if err != nil {
				return nil, err
			}
			differs := r.OK() != base.OK() || !bytes.Equal(r.Stdout, base.Stdout)
			if !differs {
				continue
			}
			// must agree with itself
			r2, err := env.Exec(&st)
			if err != nil {
				return nil, err
			}
			if r2.Exit != r.Exit || !bytes.Equal(r2.Stdout, r.Stdout) {
				return nil, Infraf("SIMULATOR-INCOMPLETE: %q is nondeterministic under a fixed scenario (escalation step of run %d)", strings.Join(st.Argv, " "), c.Run)
			}
			what := "result"
			if r.OK() != base.OK() {
				what = "status"
			}
			c.Steps = append(c.Steps, st)
			out.Results = append(out.Results, r)
			out.Findings = append(out.Findings, Finding{
				Signature: fmt.Sprintf("C12/%s/%s/%s", dimOf(st.Note), what, cmd),
				Detail: fmt.Sprintf("variant %q (%s, seed %d; found by escalation after the real runtime disagreed) of `crd %s` disagrees with the identity execution: base exit=%d stdout=%q; variant exit=%d stdout=%q",
					st.Note, st.SchedPolicy, st.Seed, strings.Join(c.Steps[0].Argv, " "), base.Exit, first(base.Stdout, 160), r.Exit, first(r.Stdout, 160)),
			})
			return out, nil
		}
		// a source of nondeterminism (or an instrumentation effect) outside the seams. Not replayable.
		out.Incomplete = fmt.Sprintf("SIMULATOR-INCOMPLETE (run %d): plain execution of `crd %s` disagrees with every simulated execution (%s), also after 24 more schedules and CPU counts: plain exit=%d stdout=%q; simulated exit=%d stdout=%q",
			c.Run, strings.Join(c.Steps[m.i].Argv, " "), m.what, out.Results[m.i].Exit, first(out.Results[m.i].Stdout, 200), base.Exit, first(base.Stdout, 200))
		return out, nil
	}
	return out, nil
}

// setInput gives every execution of the family the new input, wherever that
// execution gets its input from (stdin, stdin behind a consumed header, a
// FILE under whatever name): a family whose members read different inputs is
// not an instance of the property.
func setInput(c *Case, data []byte) {
	old := inputOf(c)
	for i := range c.Steps {
		st := &c.Steps[i]
		if st.Stdin != nil {
			if st.Stdin.Offset > 0 && st.Stdin.Offset <= len(st.Stdin.Data) {
				st.Stdin.Data = append(append([]byte{}, st.Stdin.Data[:st.Stdin.Offset]...), data...)
			} else {
				st.Stdin.Data = data
			}
		}
		for name, f := range st.Files {
			if f != nil && (name == inPath || (len(old) > 0 && bytes.Equal(f.Data, old))) {
				f.Data = data
			}
		}
	}
}

func inputOf(c *Case) []byte {
	for i := range c.Steps {
		if c.Steps[i].Stdin != nil {
			if o := c.Steps[i].Stdin.Offset; o > 0 && o <= len(c.Steps[i].Stdin.Data) {
				return c.Steps[i].Stdin.Data[o:]
			}
			return c.Steps[i].Stdin.Data
		}
		if f, ok := c.Steps[i].Files[inPath]; ok {
			return f.Data
		}
	}
	return nil
}

// dropFlag removes "--flag value" pairs (flags crd knows to take a value).
var valueFlags = []string{"--track", "--key", "--bpm", "--velocity", "--meter", "--instrument", "--program", "--attr", "--chord", "-k"}

func dropFlagCandidates(c *Case) []*Case {
	var out []*Case
	// shorten the value of -c (conversion chain / command list)
	for _, cut := range []int{0, 1} {
		d := c.Clone()
		changed := false
		for i := range d.Steps {
			argv := d.Steps[i].Argv
			for j := 0; j+1 < len(argv); j++ {
				if argv[j] == "-c" && len(argv[j+1]) > 1 {
					v := argv[j+1]
					if cut == 0 {
						argv[j+1] = v[:len(v)/2]
					} else {
						argv[j+1] = v[1:]
					}
					changed = true
				}
			}
		}
		if changed {
			out = append(out, d)
		}
	}
	for _, fl := range valueFlags {
		d := c.Clone()
		changed := false
		for i := range d.Steps {
			argv := d.Steps[i].Argv
			for j := 0; j+1 < len(argv); j++ {
				if argv[j] == fl {
					argv = append(argv[:j:j], argv[j+2:]...)
					changed = true
					break
				}
			}
			d.Steps[i].Argv = argv
		}
		if changed {
			out = append(out, d)
		}
	}
	return out
}

func (p *C12) Shrinks(c *Case) []*Case {
	var out []*Case
	// keep the base and one variant
	if len(c.Steps) > 2 {
		for i := 1; i < len(c.Steps); i++ {
			if c.Steps[i].Plain || c.Steps[i].Note == "history:warm-up" {
				continue
			}
			d := c.Clone()
			if cf := c.Steps[i].CarryFrom; cf != nil {
				one := 1
				d.Steps = []Step{d.Steps[0], d.Steps[*cf], d.Steps[i]}
				d.Steps[2].CarryFrom = &one
				if len(c.Steps) == 3 {
					continue
				}
			} else {
				d.Steps = []Step{d.Steps[0], d.Steps[i]}
			}
			out = append(out, d)
		}
	}
	out = append(out, dropFlagCandidates(c)...)
	if in := inputOf(c); len(in) > 0 {
		for _, b := range ShrinkBytes(in) {
			d := c.Clone()
			setInput(d, b)
			out = append(out, d)
		}
	}
	// simpler policies
	for i := 1; i < len(c.Steps); i++ {
		st := c.Steps[i]
		if st.MapPolicy == "shuffle" || st.MapPolicy == "rotate" {
			d := c.Clone()
			d.Steps[i].MapPolicy = "reverse"
			out = append(out, d)
		}
		if st.SchedPolicy != "" && st.SchedPolicy != "run-to-block" && st.SchedPolicy != "prefer-high" {
			d := c.Clone()
			d.Steps[i].SchedPolicy = "prefer-high"
			out = append(out, d)
		}
	}
	return out
}

func (p *C12) Extra() map[string]any { return nil }

func (p *C12) Rule() string {
	return "a case is a family of simulated processes for one (command, input): the identity execution plus variants that differ only in map-iteration order, goroutine schedule, stdin/file delivery plan, --debug, input path (stdin/-/FILE), output path (stdout/-o) and two executions on the real runtime; a process is non-trivial when its journal shows a non-identity map permutation, a scheduler pre-emption, a short/zero/rune-splitting read, a joined EOF or a fired open/create fault; distinct = distinct (command, input hash, permutation hashes, schedule hash, delivery signature)"
}

func (p *C12) Assumptions() []string {
	return []string{
		"interleavings are explored at synchronisation points only (channel, mutex, go, task end); data races between them are not modelled",
		"map iteration inside dependencies (yaml.v3, cobra, gomidi) is not permuted; the plain repetitions execute it under the real runtime",
		"stderr is not compared (the property speaks about standard output and success/failure)",
	}
}
