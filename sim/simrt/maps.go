package simrt

import (
	"fmt"
	"iter"
	"reflect"
	"strconv"
	"strings"
)

func canon(k any) string {
	return canonV(reflect.ValueOf(k))
}

func canonV(v reflect.Value) string {
	switch v.Kind() {
	case reflect.String:
		return "s" + v.String()
	case reflect.Int, reflect.Int8, reflect.Int16, reflect.Int32, reflect.Int64:
		// order-preserving fixed width
		u := uint64(v.Int()) ^ (1 << 63)
		return "i" + pad20(u)
	case reflect.Uint, reflect.Uint8, reflect.Uint16, reflect.Uint32, reflect.Uint64, reflect.Uintptr:
		return "u" + pad20(v.Uint())
	case reflect.Bool:
		if v.Bool() {
			return "b1"
		}
		return "b0"
	case reflect.Struct:
		var sb strings.Builder
		sb.WriteString("{")
		for i := 0; i < v.NumField(); i++ {
			sb.WriteString(canonV(v.Field(i)))
			sb.WriteString("\x00")
		}
		sb.WriteString("}")
		return sb.String()
	case reflect.Array:
		var sb strings.Builder
		sb.WriteString("[")
		for i := 0; i < v.Len(); i++ {
			sb.WriteString(canonV(v.Index(i)))
			sb.WriteString("\x00")
		}
		sb.WriteString("]")
		return sb.String()
	case reflect.Interface:
		if v.IsNil() {
			return "n"
		}
		return "I" + v.Elem().Type().String() + ":" + canonV(v.Elem())
	default:
		if v.CanInterface() {
			return fmt.Sprintf("?%#v", v.Interface())
		}
		return "?" + v.String()
	}
}

func pad20(u uint64) string {
	s := strconv.FormatUint(u, 10)
	return strings.Repeat("0", 20-len(s)) + s
}

// MapSeq replaces `range m` over a map: same entries, order decided by the
// scenario. Entries deleted during the iteration are skipped (as Go does);
// entries added during the iteration are not visited (Go allows either).
func MapSeq[M ~map[K]V, K comparable, V any](m M, site string) iter.Seq2[K, V] {
	return func(yield func(K, V) bool) {
		for _, k := range orderedKeys(m, site) {
			v, ok := m[k]
			if !ok {
				continue
			}
			if !yield(k, v) {
				return
			}
		}
	}
}

// MapsKeys replaces maps.Keys.
func MapsKeys[M ~map[K]V, K comparable, V any](m M, site string) iter.Seq[K] {
	return func(yield func(K) bool) {
		for _, k := range orderedKeys(m, site) {
			if _, ok := m[k]; !ok {
				continue
			}
			if !yield(k) {
				return
			}
		}
	}
}

// MapsValues replaces maps.Values.
func MapsValues[M ~map[K]V, K comparable, V any](m M, site string) iter.Seq[V] {
	return func(yield func(V) bool) {
		for _, k := range orderedKeys(m, site) {
			v, ok := m[k]
			if !ok {
				continue
			}
			if !yield(v) {
				return
			}
		}
	}
}

// SyncMap replaces sync.Map. Under the baton no locking is needed; what
// matters is that Range visits the entries in an order the scenario decides
// (sync.Map.Range iterates a built-in map underneath).
type SyncMap struct {
	m map[any]any
}

func (s *SyncMap) init() {
	if s.m == nil {
		s.m = map[any]any{}
	}
}

func (s *SyncMap) Load(key any) (any, bool) {
	yieldPoint()
	v, ok := s.m[key]
	return v, ok
}

func (s *SyncMap) Store(key, value any) {
	yieldPoint()
	s.init()
	s.m[key] = value
}

func (s *SyncMap) Clear() {
	yieldPoint()
	s.m = nil
}

func (s *SyncMap) LoadOrStore(key, value any) (any, bool) {
	yieldPoint()
	s.init()
	if v, ok := s.m[key]; ok {
		return v, true
	}
	s.m[key] = value
	return value, false
}

func (s *SyncMap) LoadAndDelete(key any) (any, bool) {
	yieldPoint()
	v, ok := s.m[key]
	delete(s.m, key)
	return v, ok
}

func (s *SyncMap) Delete(key any) {
	yieldPoint()
	delete(s.m, key)
}

func (s *SyncMap) Swap(key, value any) (any, bool) {
	yieldPoint()
	s.init()
	v, ok := s.m[key]
	s.m[key] = value
	return v, ok
}

func (s *SyncMap) CompareAndSwap(key, old, new any) bool {
	yieldPoint()
	if v, ok := s.m[key]; ok && v == old {
		s.m[key] = new
		return true
	}
	return false
}

func (s *SyncMap) CompareAndDelete(key, old any) bool {
	yieldPoint()
	if v, ok := s.m[key]; ok && v == old {
		delete(s.m, key)
		return true
	}
	return false
}

func (s *SyncMap) Range(f func(key, value any) bool) {
	yieldPoint()
	for _, k := range orderedKeys(s.m, "sync.Map.Range") {
		v, ok := s.m[k]
		if !ok {
			continue
		}
		if !f(k, v) {
			return
		}
	}
}

// Pool replaces sync.Pool. The real pool hands back an arbitrary pooled
// object or a fresh one, and forgets everything at a garbage collection: all
// of that is a choice here, drawn from the scheduler stream (most recently
// put, oldest, or New although the pool is not empty).
type Pool struct {
	New   func() any
	items []any
}

func (p *Pool) Put(x any) {
	if x == nil {
		return
	}
	p.items = append(p.items, x)
}

func (p *Pool) Get() any {
	if n := len(p.items); n > 0 {
		pick := n - 1
		switch step.SchedPolicy {
		case "", "run-to-block":
		default:
			switch schedRNG.intn(4) {
			case 0:
				pick = 0
			case 1:
				pick = -1 // as after a garbage collection
			case 2:
				pick = schedRNG.intn(n)
			}
		}
		if pick >= 0 {
			x := p.items[pick]
			p.items = append(p.items[:pick], p.items[pick+1:]...)
			return x
		}
		p.items = nil
	}
	if p.New != nil {
		return p.New()
	}
	return nil
}
