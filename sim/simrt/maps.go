package simrt

import (
	"fmt"
	"iter"
	"reflect"
	"strconv"
	"strings"
)

func canon(k any) string {
	return canonV(reflect.ValueOf(k))
}

func canonV(v reflect.Value) string {
	switch v.Kind() {
	case reflect.String:
		return "s" + v.String()
	case reflect.Int, reflect.Int8, reflect.Int16, reflect.Int32, reflect.Int64:
		// order-preserving fixed width
		u := uint64(v.Int()) ^ (1 << 63)
		return "i" + pad20(u)
	case reflect.Uint, reflect.Uint8, reflect.Uint16, reflect.Uint32, reflect.Uint64, reflect.Uintptr:
		return "u" + pad20(v.Uint())
	case reflect.Bool:
		if v.Bool() {
			return "b1"
		}
		return "b0"
	case reflect.Struct:
		var sb strings.Builder
		sb.WriteString("{")
		for i := 0; i < v.NumField(); i++ {
			sb.WriteString(canonV(v.Field(i)))
			sb.WriteString("\x00")
		}
		sb.WriteString("}")
		return sb.String()
	case reflect.Array:
		var sb strings.Builder
		sb.WriteString("[")
		for i := 0; i < v.Len(); i++ {
			sb.WriteString(canonV(v.Index(i)))
			sb.WriteString("\x00")
		}
		sb.WriteString("]")
		return sb.String()
	case reflect.Interface:
		if v.IsNil() {
			return "n"
		}
		return "I" + v.Elem().Type().String() + ":" + canonV(v.Elem())
	default:
		if v.CanInterface() {
			return fmt.Sprintf("?%#v", v.Interface())
		}
		return "?" + v.String()
	}
}

func pad20(u uint64) string {
	s := strconv.FormatUint(u, 10)
	return strings.Repeat("0", 20-len(s)) + s
}

// MapSeq replaces `range m` over a map: same entries, order decided by the
// scenario. Entries deleted during the iteration are skipped (as Go does);
// entries added during the iteration are not visited (Go allows either).
func MapSeq[M ~map[K]V, K comparable, V any](m M, site string) iter.Seq2[K, V] {
	return func(yield func(K, V) bool) {
		for _, k := range orderedKeys(m, site) {
			v, ok := m[k]
			if !ok {
				continue
			}
			if !yield(k, v) {
				return
			}
		}
	}
}

// MapsKeys replaces maps.Keys.
func MapsKeys[M ~map[K]V, K comparable, V any](m M, site string) iter.Seq[K] {
	return func(yield func(K) bool) {
		for _, k := range orderedKeys(m, site) {
			if _, ok := m[k]; !ok {
				continue
			}
			if !yield(k) {
				return
			}
		}
	}
}

// MapsValues replaces maps.Values.
func MapsValues[M ~map[K]V, K comparable, V any](m M, site string) iter.Seq[V] {
	return func(yield func(V) bool) {
		for _, k := range orderedKeys(m, site) {
			v, ok := m[k]
			if !ok {
				continue
			}
			if !yield(v) {
				return
			}
		}
	}
}
