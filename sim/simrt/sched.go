package simrt

import (
	"iter"
	"os"
	"strconv"
	"sync"
	"time"
)

// ---------------------------------------------------------------------------
// Tasks run one at a time; the baton is handed over only at the scheduling
// points below, and who gets it is drawn from the scenario's scheduler stream.

const (
	stRunnable = iota
	stBlocked
	stDone
)

type task struct {
	id     int
	wake   chan struct{}
	state  int
	waited int // scheduling points at which it was runnable and not chosen
}

// fairnessBound: no policy leaves a runnable task waiting for more than this
// many scheduling points (real schedulers are unfair, not starving).
const fairnessBound = 64

// preemptTicks: a task that has computed this long without reaching a
// scheduling point is pre-empted when others are runnable (the Go runtime
// does that after about 10 ms: a spin on a flag ends).
const preemptTicks = 10_000

var lastSchedTick int64

var (
	tasks    []*task
	cur      *task
	schedRNG *rng
)

func initSched() {
	t := &task{id: 0, wake: make(chan struct{}, 1)}
	tasks = []*task{t}
	cur = t
	schedRNG = newStream("sched")
	journal.Tasks = 1
	if active {
		go stallMonitor()
	}
}

// stallMonitor: with several tasks alive, no progress of the logical clock
// or of the scheduler for a long real time means that the task holding the
// baton is blocked in a real (unsimulated) blocking call: the simulator
// cannot go on and must not turn that into a verdict about crd.
func stallMonitor() {
	last := int64(-1)
	idle := 0
	for {
		time.Sleep(2 * time.Second)
		if exiting {
			return
		}
		now := ticks + int64(journal.SchedPoints)
		for _, f := range allStreams {
			now += int64(f.stat.Reads)
		}
		if now != last {
			last, idle = now, 0
			continue
		}
		idle++
		alive := 0
		for _, t := range tasks {
			if t.state != stDone {
				alive++
			}
		}
		if idle >= 20 && alive > 1 {
			trouble("no progress for 40 s with several goroutines alive: a task is blocked outside the simulator's primitives")
		}
	}
}

func schedFinish() {
	for _, t := range tasks {
		if t != cur && t.state != stDone {
			journal.Abandoned++
		}
	}
}

func runnable(includeCur bool) []*task {
	var rs []*task
	for _, t := range tasks {
		if t.state == stRunnable && (includeCur || t != cur) {
			rs = append(rs, t)
		}
	}
	return rs
}

func choose(rs []*task) *task {
	journal.SchedPoints++
	lastSchedTick = ticks
	if len(rs) == 1 {
		rs[0].waited = 0
		return rs[0]
	}
	journal.SchedChoices++
	pick := choosePolicy(rs)
	// bounded unfairness
	var starving *task
	for _, t := range rs {
		if t != pick && t.waited >= fairnessBound && (starving == nil || t.waited > starving.waited) {
			starving = t
		}
	}
	if starving != nil {
		pick = starving
		journal.FairnessPicks++
	}
	for _, t := range rs {
		if t == pick {
			t.waited = 0
		} else {
			t.waited++
		}
	}
	journal.SchedHash = mixHash(journal.SchedHash, uint64(pick.id)+1)
	return pick
}

func choosePolicy(rs []*task) *task {
	var pick *task
	switch step.SchedPolicy {
	case "random":
		pick = rs[schedRNG.intn(len(rs))]
	case "round-robin":
		for _, t := range rs {
			if t.id > cur.id {
				pick = t
				break
			}
		}
		if pick == nil {
			pick = rs[0]
		}
	case "prefer-low":
		pick = rs[0]
	case "prefer-high":
		pick = rs[len(rs)-1]
	case "mostly-low": // low id with p=7/8
		if schedRNG.intn(8) != 0 {
			pick = rs[0]
		} else {
			pick = rs[schedRNG.intn(len(rs))]
		}
	case "mostly-high":
		if schedRNG.intn(8) != 0 {
			pick = rs[len(rs)-1]
		} else {
			pick = rs[schedRNG.intn(len(rs))]
		}
	case "rtb-high", "rtb-random":
		// the running task goes on until it blocks; then the newest (or a
		// random) runnable task is taken: started goroutines run in reverse or
		// arbitrary order of creation
		for _, t := range rs {
			if t == cur {
				pick = t
			}
		}
		if pick == nil {
			if step.SchedPolicy == "rtb-high" {
				pick = rs[len(rs)-1]
			} else {
				pick = rs[schedRNG.intn(len(rs))]
			}
		}
	default: // run-to-block
		for _, t := range rs {
			if t == cur {
				pick = t
			}
		}
		if pick == nil {
			pick = rs[0]
		}
	}
	return pick
}

var traceSched = os.Getenv("CRDSIM_TRACE") != ""

func switchTo(next *task, wait bool) {
	prev := cur
	if traceSched {
		os.Stderr.WriteString("sched: " + strconv.Itoa(prev.id) + " -> " + strconv.Itoa(next.id) + "\n")
	}
	if next == prev {
		return
	}
	journal.SchedSwitch++
	cur = next
	next.wake <- struct{}{}
	if wait {
		<-prev.wake
	}
}

// yieldPoint: the running task stays runnable; somebody (maybe itself) goes on.
func yieldPoint() {
	if len(timerq) > 0 {
		fireDue()
	}
	if len(tasks) == 1 {
		return
	}
	switchTo(choose(runnable(true)), true)
}

// block: the running task cannot go on until somebody makes it runnable.
func block() {
	cur.state = stBlocked
	fireDue()
	rs := runnable(true)
	for len(rs) == 0 && jumpToNextTimer() {
		rs = runnable(true)
	}
	if len(rs) == 0 {
		if selectRendezvousWaiters > 0 {
			trouble("all tasks blocked while a select waits on an unbuffered channel: a rendezvous between two selects is not modelled")
		}
		journal.Note = "all tasks blocked"
		finish("deadlock", ExitDeadlock)
	}
	switchTo(choose(rs), true)
}

func wakeAll(ws *[]*task) {
	for _, t := range *ws {
		if t.state == stBlocked {
			t.state = stRunnable
		}
	}
	*ws = (*ws)[:0]
}

func spawn(fn func()) {
	t := &task{id: len(tasks), wake: make(chan struct{}, 1)}
	tasks = append(tasks, t)
	journal.Tasks++
	go func() {
		<-t.wake
		fn()
		taskEnd(t)
	}()
	yieldPoint()
}

func taskEnd(t *task) {
	t.state = stDone
	fireDue()
	rs := runnable(false)
	for len(rs) == 0 && jumpToNextTimer() {
		rs = runnable(false)
	}
	if len(rs) == 0 {
		if selectRendezvousWaiters > 0 {
			trouble("all tasks blocked while a select waits on an unbuffered channel: a rendezvous between two selects is not modelled")
		}
		journal.Note = "all tasks blocked (after task end)"
		finish("deadlock", ExitDeadlock)
	}
	switchTo(choose(rs), false)
}

// Go0..Go3 replace `go f(args...)`; function value and arguments are
// evaluated by the caller, as the language specifies.
func Go0(f func())                                               { spawn(f) }
func Go1[A any](f func(A), a A)                                  { spawn(func() { f(a) }) }
func Go2[A, B any](f func(A, B), a A, b B)                       { spawn(func() { f(a, b) }) }
func Go3[A, B, C any](f func(A, B, C), a A, b B, c C)            { spawn(func() { f(a, b, c) }) }
func Go4[A, B, C, D any](f func(A, B, C, D), a A, b B, c C, d D) { spawn(func() { f(a, b, c, d) }) }
func Go5[A, B, C, D, E any](f func(A, B, C, D, E), a A, b B, c C, d D, e E) {
	spawn(func() { f(a, b, c, d, e) })
}
func Go6[A, B, C, D, E, F any](f func(A, B, C, D, E, F), a A, b B, c C, d D, e E, g F) {
	spawn(func() { f(a, b, c, d, e, g) })
}
func Go7[A, B, C, D, E, F, G any](f func(A, B, C, D, E, F, G), a A, b B, c C, d D, e E, g F, h G) {
	spawn(func() { f(a, b, c, d, e, g, h) })
}
func Go8[A, B, C, D, E, F, G, H any](f func(A, B, C, D, E, F, G, H), a A, b B, c C, d D, e E, g F, h G, i H) {
	spawn(func() { f(a, b, c, d, e, g, h, i) })
}
func Go3R[A, B, C, R any](f func(A, B, C) R, a A, b B, c C) { spawn(func() { f(a, b, c) }) }
func Go4R[A, B, C, D, R any](f func(A, B, C, D) R, a A, b B, c C, d D) {
	spawn(func() { f(a, b, c, d) })
}
func Go0R[R any](f func() R)                     { spawn(func() { f() }) }
func Go1R[A, R any](f func(A) R, a A)            { spawn(func() { f(a) }) }
func Go2R[A, B, R any](f func(A, B) R, a A, b B) { spawn(func() { f(a, b) }) }

// yieldOthers: the running task stays runnable but lets another runnable
// task (if any) go first, whatever the policy says about staying.
func yieldOthers() {
	fireDue()
	rs := runnable(false)
	if len(rs) == 0 {
		return
	}
	switchTo(choose(rs), true)
}

// P is the statement-level pre-emption point (see Step.PreemptEvery).
func P() {
	if step.PreemptEvery <= 0 || len(tasks) < 2 || exiting {
		return
	}
	if schedRNG.intn(step.PreemptEvery) != 0 {
		return
	}
	fireDue()
	rs := runnable(false)
	if len(rs) == 0 {
		return
	}
	journal.StmtPreempts++
	pick := rs[schedRNG.intn(len(rs))]
	journal.SchedHash = mixHash(journal.SchedHash, uint64(pick.id)+7777)
	switchTo(pick, true)
}

// Gosched replaces runtime.Gosched.
func Gosched() { yieldOthers() }

// ---------------------------------------------------------------------------
// Chan replaces chan T (all directions).

type sendWaiter[T any] struct {
	t    *task
	v    T
	done bool
}

type recvWaiter[T any] struct {
	t    *task
	v    T
	ok   bool
	done bool
}

type Chan[T any] struct {
	buf    []T
	capa   int
	closed bool
	recvq  []*task // woken when something may have become receivable (or closed)
	sendq  []*task // woken when something may have become sendable (or closed)
	// unbuffered rendezvous: blocked plain senders / receivers
	slots []*sendWaiter[T]
	rwait []*recvWaiter[T]
}

func MakeChan[T any](n int) *Chan[T] {
	if n < 0 {
		panic("makechan: size out of range")
	}
	return &Chan[T]{capa: n}
}

func (c *Chan[T]) Len() int {
	if c == nil {
		return 0
	}
	return len(c.buf)
}

func (c *Chan[T]) Cap() int {
	if c == nil {
		return 0
	}
	return c.capa
}

func wake(t *task) {
	if t.state == stBlocked {
		t.state = stRunnable
	}
}

// trySend performs a send if it can complete without blocking.
func (c *Chan[T]) trySend(v T) bool {
	if c.closed {
		panic("send on closed channel")
	}
	if c.capa == 0 {
		if len(c.rwait) == 0 {
			return false
		}
		rw := c.rwait[0]
		c.rwait = c.rwait[1:]
		rw.v, rw.ok, rw.done = v, true, true
		wake(rw.t)
		return true
	}
	if len(c.buf) < c.capa {
		c.buf = append(c.buf, v)
		if len(c.buf) > journal.ChanMaxLen {
			journal.ChanMaxLen = len(c.buf)
		}
		wakeAll(&c.recvq)
		return true
	}
	return false
}

func (c *Chan[T]) canSend() bool {
	if c == nil {
		return false
	}
	if c.closed {
		return true // fires a panic, as in Go
	}
	if c.capa == 0 {
		return len(c.rwait) > 0
	}
	return len(c.buf) < c.capa
}

// tryRecv performs a receive if it can complete without blocking.
func (c *Chan[T]) tryRecv() (T, bool, bool) {
	var zero T
	if len(c.buf) > 0 {
		v := c.buf[0]
		c.buf[0] = zero
		c.buf = c.buf[1:]
		wakeAll(&c.sendq)
		return v, true, true
	}
	if len(c.slots) > 0 {
		s := c.slots[0]
		c.slots = c.slots[1:]
		s.done = true
		wake(s.t)
		return s.v, true, true
	}
	if c.closed {
		return zero, false, true
	}
	return zero, false, false
}

func (c *Chan[T]) canRecv() bool {
	return c != nil && (len(c.buf) > 0 || len(c.slots) > 0 || c.closed)
}

func (c *Chan[T]) Send(v T) {
	yieldPoint()
	// a goroutine can be pre-empted right after the operation completed, too
	defer yieldPoint()
	if c == nil {
		for {
			block()
		}
	}
	if c.trySend(v) {
		return
	}
	if c.capa == 0 {
		sw := &sendWaiter[T]{t: cur, v: v}
		c.slots = append(c.slots, sw)
		wakeAll(&c.recvq)
		for !sw.done {
			if c.closed {
				panic("send on closed channel")
			}
			journal.BlockedSends++
			c.sendq = append(c.sendq, cur)
			block()
		}
		return
	}
	for {
		journal.BlockedSends++
		c.sendq = append(c.sendq, cur)
		block()
		if c.trySend(v) {
			return
		}
	}
}

func (c *Chan[T]) Recv2() (T, bool) {
	yieldPoint()
	defer yieldPoint()
	if c == nil {
		for {
			block()
		}
	}
	if v, ok, done := c.tryRecv(); done {
		return v, ok
	}
	if c.capa == 0 {
		rw := &recvWaiter[T]{t: cur}
		c.rwait = append(c.rwait, rw)
		wakeAll(&c.sendq)
		for !rw.done {
			if c.closed {
				for i, x := range c.rwait {
					if x == rw {
						c.rwait = append(c.rwait[:i], c.rwait[i+1:]...)
						break
					}
				}
				var zero T
				return zero, false
			}
			journal.BlockedRecvs++
			c.recvq = append(c.recvq, cur)
			block()
		}
		return rw.v, rw.ok
	}
	for {
		journal.BlockedRecvs++
		c.recvq = append(c.recvq, cur)
		block()
		if v, ok, done := c.tryRecv(); done {
			return v, ok
		}
	}
}

func (c *Chan[T]) Recv() T {
	v, _ := c.Recv2()
	return v
}

func (c *Chan[T]) Close() {
	yieldPoint()
	if c == nil {
		panic("close of nil channel")
	}
	if c.closed {
		panic("close of closed channel")
	}
	c.closed = true
	wakeAll(&c.recvq)
	wakeAll(&c.sendq)
}

// All replaces `range ch`.
func (c *Chan[T]) All() iter.Seq[T] {
	return func(yield func(T) bool) {
		for {
			v, ok := c.Recv2()
			if !ok {
				return
			}
			if !yield(v) {
				return
			}
		}
	}
}

// ---------------------------------------------------------------------------
// select

type SelCase interface {
	ready() bool
	fire()
	register(t *task)
	unbuffered() bool
}

type RecvOp[T any] struct {
	c  *Chan[T]
	v  T
	ok bool
}

func NewRecv[T any](c *Chan[T]) *RecvOp[T] { return &RecvOp[T]{c: c} }
func (o *RecvOp[T]) Value() T              { return o.v }
func (o *RecvOp[T]) Value2() (T, bool)     { return o.v, o.ok }
func (o *RecvOp[T]) ready() bool           { return o.c.canRecv() }
func (o *RecvOp[T]) fire()                 { o.v, o.ok, _ = o.c.tryRecv() }
func (o *RecvOp[T]) unbuffered() bool      { return o.c != nil && o.c.capa == 0 }
func (o *RecvOp[T]) register(t *task) {
	if o.c != nil {
		o.c.recvq = append(o.c.recvq, t)
	}
}

type SendOp[T any] struct {
	c *Chan[T]
	v T
}

func NewSend[T any](c *Chan[T], v T) *SendOp[T] { return &SendOp[T]{c: c, v: v} }
func (o *SendOp[T]) ready() bool                { return o.c.canSend() }
func (o *SendOp[T]) fire()                      { o.c.trySend(o.v) }
func (o *SendOp[T]) unbuffered() bool           { return o.c != nil && o.c.capa == 0 }
func (o *SendOp[T]) register(t *task) {
	if o.c != nil {
		o.c.sendq = append(o.c.sendq, t)
	}
}

var selectRendezvousWaiters int

// Select replaces a select statement: returns the index of the case that
// fired, -1 for default. Among several ready cases the choice is drawn from
// the scheduler stream (Go chooses uniformly at random).
func Select(hasDefault bool, cases ...SelCase) int {
	yieldPoint()
	defer yieldPoint()
	for {
		var ready []int
		for i, c := range cases {
			if c.ready() {
				ready = append(ready, i)
			}
		}
		if len(ready) > 0 {
			i := ready[0]
			if len(ready) > 1 {
				journal.SchedChoices++
				if step.SchedPolicy != "run-to-block" && step.SchedPolicy != "" {
					i = ready[schedRNG.intn(len(ready))]
				}
				journal.SchedHash = mixHash(journal.SchedHash, uint64(i)+1000)
			}
			cases[i].fire()
			return i
		}
		if hasDefault {
			return -1
		}
		unbuf := false
		for _, c := range cases {
			c.register(cur)
			if c.unbuffered() {
				unbuf = true
			}
		}
		if unbuf {
			selectRendezvousWaiters++
		}
		block()
		if unbuf {
			selectRendezvousWaiters--
		}
	}
}

// ---------------------------------------------------------------------------
// sync replacements

type Mutex struct {
	locked  bool
	waiters []*task
}

func (m *Mutex) Lock() {
	yieldPoint()
	for m.locked {
		journal.BlockedLocks++
		m.waiters = append(m.waiters, cur)
		block()
	}
	m.locked = true
	yieldPoint()
}

func (m *Mutex) TryLock() bool {
	yieldPoint()
	if m.locked {
		return false
	}
	m.locked = true
	return true
}

func (m *Mutex) Unlock() {
	if !m.locked {
		panic("sync: unlock of unlocked mutex")
	}
	m.locked = false
	wakeAll(&m.waiters)
	yieldPoint()
}

type RWMutex struct {
	writer  bool
	readers int
	waiters []*task
}

func (m *RWMutex) Lock() {
	yieldPoint()
	for m.writer || m.readers > 0 {
		journal.BlockedLocks++
		m.waiters = append(m.waiters, cur)
		block()
	}
	m.writer = true
}

func (m *RWMutex) Unlock() {
	if !m.writer {
		panic("sync: Unlock of unlocked RWMutex")
	}
	m.writer = false
	wakeAll(&m.waiters)
	yieldPoint()
}

func (m *RWMutex) RLock() {
	yieldPoint()
	for m.writer {
		journal.BlockedLocks++
		m.waiters = append(m.waiters, cur)
		block()
	}
	m.readers++
}

func (m *RWMutex) RUnlock() {
	if m.readers <= 0 {
		panic("sync: RUnlock of unlocked RWMutex")
	}
	m.readers--
	wakeAll(&m.waiters)
	yieldPoint()
}

// Cond replaces sync.Cond. L is whatever the program handed to NewCond (a
// simulated Mutex or RWMutex after rewriting).
type Cond struct {
	L       sync.Locker
	waiters []*condWaiter
}

type condWaiter struct {
	t     *task
	woken bool
}

// NewCond replaces sync.NewCond.
func NewCond(l sync.Locker) *Cond { return &Cond{L: l} }

func (c *Cond) Wait() {
	w := &condWaiter{t: cur}
	c.waiters = append(c.waiters, w)
	c.L.Unlock()
	for !w.woken {
		block()
	}
	c.L.Lock()
}

func (c *Cond) Signal() {
	yieldPoint()
	if len(c.waiters) > 0 {
		// which waiter a Signal wakes is not specified: a scheduler choice
		i := 0
		if len(c.waiters) > 1 && step.SchedPolicy != "" && step.SchedPolicy != "run-to-block" {
			i = schedRNG.intn(len(c.waiters))
		}
		w := c.waiters[i]
		c.waiters = append(c.waiters[:i], c.waiters[i+1:]...)
		w.woken = true
		wake(w.t)
	}
	yieldPoint()
}

func (c *Cond) Broadcast() {
	yieldPoint()
	for _, w := range c.waiters {
		w.woken = true
		wake(w.t)
	}
	c.waiters = nil
	yieldPoint()
}

type WaitGroup struct {
	n       int
	waiters []*task
}

func (w *WaitGroup) Add(d int) {
	w.n += d
	if w.n < 0 {
		panic("sync: negative WaitGroup counter")
	}
	if w.n == 0 {
		wakeAll(&w.waiters)
	}
}

func (w *WaitGroup) Done() { w.Add(-1); yieldPoint() }

func (w *WaitGroup) Wait() {
	yieldPoint()
	for w.n > 0 {
		w.waiters = append(w.waiters, cur)
		block()
	}
}

func (w *WaitGroup) Go(f func()) {
	w.Add(1)
	spawn(func() {
		defer w.Done()
		f()
	})
}

type Once struct {
	done    bool
	running bool
	waiters []*task
}

func (o *Once) Do(f func()) {
	if o.done {
		return
	}
	for o.running {
		o.waiters = append(o.waiters, cur)
		block()
		if o.done {
			return
		}
	}
	o.running = true
	defer func() {
		o.done = true
		o.running = false
		wakeAll(&o.waiters)
	}()
	f()
}

// ---------------------------------------------------------------------------
// time / runtime seams (nothing in crd uses them at the pinned commit; they
// keep a changed tree inside the simulator)

var simClockBase = time.Unix(1_700_000_000, 0).UTC()

func Now() time.Time {
	return simClockBase.Add(time.Duration(step.Seed%86_400_000)*time.Millisecond + simClock())
}

func Since(t time.Time) time.Duration { return Now().Sub(t) }

func NumCPU() int {
	if step.CPUs > 0 {
		return step.CPUs
	}
	return 1 + int((step.Seed>>8)%16)
}

func GOMAXPROCS(n int) int { return NumCPU() }

// ErrGroup replaces golang.org/x/sync/errgroup.Group (without context).
type ErrGroup struct {
	wg      WaitGroup
	cancel  func(error)
	err     error
	limit   int
	active  int
	waiters []*task
}

func (g *ErrGroup) SetLimit(n int) { g.limit = n }

func (g *ErrGroup) Go(f func() error) {
	for g.limit > 0 && g.active >= g.limit {
		g.waiters = append(g.waiters, cur)
		block()
	}
	g.active++
	g.wg.Add(1)
	spawn(func() {
		defer func() {
			g.active--
			wakeAll(&g.waiters)
			g.wg.Done()
		}()
		if err := f(); err != nil && g.err == nil {
			g.err = err
			if g.cancel != nil {
				g.cancel(err)
			}
		}
	})
}

func (g *ErrGroup) TryGo(f func() error) bool {
	if g.limit > 0 && g.active >= g.limit {
		return false
	}
	g.Go(f)
	return true
}

func (g *ErrGroup) Wait() error {
	g.wg.Wait()
	if g.cancel != nil {
		g.cancel(g.err)
	}
	return g.err
}
