package simrt

import (
	"time"
)

// ---------------------------------------------------------------------------
// Discrete-event time. The simulated clock is the logical clock (one tick =
// one microsecond of computing) plus an offset that jumps: when every task
// is blocked and a timer is pending, the clock jumps to the earliest timer
// instead of waiting for it. Timers fire at scheduling points, in the order
// of (due time, creation number). Nothing here reads the real clock.

type simTimer struct {
	at      time.Duration
	seq     uint64
	fire    func()
	stopped bool
	fired   bool
}

var (
	simOffset time.Duration
	timerq    []*simTimer // kept sorted by (at, seq); few timers are ever pending
	timerSeq  uint64
)

func simClock() time.Duration { return simOffset + time.Duration(ticks)*time.Microsecond }

func addTimer(d time.Duration, fire func()) *simTimer {
	if d < 0 {
		d = 0
	}
	timerSeq++
	t := &simTimer{at: simClock() + d, seq: timerSeq, fire: fire}
	i := len(timerq)
	for i > 0 && (timerq[i-1].at > t.at) {
		i--
	}
	timerq = append(timerq, nil)
	copy(timerq[i+1:], timerq[i:])
	timerq[i] = t
	journal.TimersSet++
	return t
}

func (t *simTimer) stop() bool {
	if t.fired || t.stopped {
		return false
	}
	t.stopped = true
	for i, x := range timerq {
		if x == t {
			timerq = append(timerq[:i], timerq[i+1:]...)
			break
		}
	}
	return true
}

// fireDue runs every timer whose time has come.
func fireDue() {
	for len(timerq) > 0 && timerq[0].at <= simClock() {
		t := timerq[0]
		timerq = timerq[1:]
		t.fired = true
		journal.TimersFired++
		t.fire()
	}
}

// jumpToNextTimer: nobody can run; advance the clock to the earliest timer.
func jumpToNextTimer() bool {
	if len(timerq) == 0 {
		return false
	}
	if d := timerq[0].at - simClock(); d > 0 {
		simOffset += d
		journal.ClockJumps++
		journal.JumpedUs += int64(d / time.Microsecond)
	}
	fireDue()
	return true
}

// spawnQuiet creates a runnable task without yielding (used from timer context).
func spawnQuiet(fn func()) {
	t := &task{id: len(tasks), wake: make(chan struct{}, 1)}
	tasks = append(tasks, t)
	journal.Tasks++
	go func() {
		<-t.wake
		fn()
		taskEnd(t)
	}()
}

// Sleep replaces time.Sleep: the task is blocked until the simulated clock
// has advanced by d.
func Sleep(d time.Duration) {
	if d <= 0 {
		yieldOthers()
		return
	}
	me := cur
	done := false
	addTimer(d, func() { done = true; wake(me) })
	for !done {
		block()
	}
}

// After replaces time.After.
func After(d time.Duration) *Chan[time.Time] {
	c := MakeChan[time.Time](1)
	addTimer(d, func() { c.trySend(Now()) })
	return c
}

// TimeTick replaces time.Tick.
func TimeTick(d time.Duration) *Chan[time.Time] {
	if d <= 0 {
		return nil
	}
	return NewTicker(d).C
}

// Timer replaces time.Timer.
type Timer struct {
	C  *Chan[time.Time]
	t  *simTimer
	fn func()
}

func NewTimer(d time.Duration) *Timer {
	tm := &Timer{C: MakeChan[time.Time](1)}
	tm.t = addTimer(d, tm.expire)
	return tm
}

func AfterFunc(d time.Duration, f func()) *Timer {
	tm := &Timer{fn: f}
	tm.t = addTimer(d, tm.expire)
	return tm
}

func (tm *Timer) expire() {
	if tm.fn != nil {
		spawnQuiet(tm.fn)
		return
	}
	if len(tm.C.buf) == 0 {
		tm.C.trySend(Now())
	}
}

func (tm *Timer) Stop() bool {
	if tm.t == nil {
		panic("time: Stop called on uninitialized Timer")
	}
	return tm.t.stop()
}

func (tm *Timer) Reset(d time.Duration) bool {
	if tm.t == nil {
		panic("time: Reset called on uninitialized Timer")
	}
	active := tm.t.stop()
	// as of Go 1.23 a Reset discards a stale value waiting in the channel
	if tm.C != nil {
		tm.C.buf = tm.C.buf[:0]
	}
	tm.t = addTimer(d, tm.expire)
	return active
}

// Ticker replaces time.Ticker.
type Ticker struct {
	C       *Chan[time.Time]
	t       *simTimer
	d       time.Duration
	stopped bool
}

func NewTicker(d time.Duration) *Ticker {
	if d <= 0 {
		panic("non-positive interval for NewTicker")
	}
	tk := &Ticker{C: MakeChan[time.Time](1), d: d}
	tk.t = addTimer(d, tk.expire)
	return tk
}

func (tk *Ticker) expire() {
	if tk.stopped {
		return
	}
	if len(tk.C.buf) == 0 { // a slow receiver drops ticks, as in Go
		tk.C.trySend(Now())
	}
	tk.t = addTimer(tk.d, tk.expire)
}

func (tk *Ticker) Stop() {
	tk.stopped = true
	if tk.t != nil {
		tk.t.stop()
	}
}

func (tk *Ticker) Reset(d time.Duration) {
	if d <= 0 {
		panic("non-positive interval for Ticker.Reset")
	}
	if tk.t != nil {
		tk.t.stop()
	}
	tk.d, tk.stopped = d, false
	tk.t = addTimer(d, tk.expire)
}
