package simrt

import (
	"io"
	"io/fs"
	"os"
	"path/filepath"
	"sort"
	"strconv"
	"syscall"
	"time"
	"unicode/utf8"
)

// File stands in for *os.File wherever crd opens, creates or reads something.
type File struct {
	name string
	// read side
	data     []byte
	off      int
	plan     Plan
	ci       int // chunk index
	di       int // delay index
	zeros    int // consecutive zero reads delivered
	atEOF    bool
	isDir    bool
	isPipe   bool
	kind     string // stdin only: pipe|file|chardev
	errReads int
	stat     StreamStat
	closed   bool
	// write side
	real     *os.File
	cr       *Created
	wplan    *WritePlan
	written  int
	wfired   bool
	isStdout bool
	isStderr bool
	wdi      int
	listed   bool // a directory handle whose entries were handed out
	nonblock bool // opened with O_NONBLOCK (matters for a FIFO whose writer is late)
	// pass-through (no scenario)
	pass *os.File
}

var (
	allStreams []*File
	created    []*Created
	stdinFile  *File
	stdoutFile *File
	stderrFile *File
)

// Stdout replaces os.Stdout where crd names it explicitly (the writer its
// commands print results to). The bytes still go to the real descriptor 1;
// the scenario may make the destination fail.
func Stdout() *File {
	if stdoutFile != nil {
		return stdoutFile
	}
	stdoutFile = &File{name: "/dev/stdout", real: os.Stdout, isStdout: true}
	if active {
		stdoutFile.wplan = step.Stdout
	}
	return stdoutFile
}

func errnoOf(s string) syscall.Errno {
	switch s {
	case "ENOENT":
		return syscall.ENOENT
	case "EACCES":
		return syscall.EACCES
	case "EISDIR":
		return syscall.EISDIR
	case "EIO":
		return syscall.EIO
	case "ENOSPC":
		return syscall.ENOSPC
	case "ENOTDIR":
		return syscall.ENOTDIR
	case "EXDEV":
		return syscall.EXDEV
	}
	return syscall.EINVAL
}

func newReadFile(name string, data []byte, plan Plan) *File {
	f := &File{name: name, data: data, plan: plan}
	f.stat.Name = name
	f.stat.Bytes = len(data)
	allStreams = append(allStreams, f)
	return f
}

// Stdin replaces os.Stdin.
func Stdin() *File {
	if stdinFile != nil {
		return stdinFile
	}
	if !active {
		stdinFile = &File{name: "/dev/stdin", pass: os.Stdin}
		return stdinFile
	}
	if step.Stdin == nil {
		stdinFile = newReadFile("/dev/stdin", nil, Plan{})
	} else {
		stdinFile = newReadFile("/dev/stdin", step.Stdin.Data, step.Stdin.Plan)
		stdinFile.kind = step.Stdin.Kind
		if step.Stdin.Kind == "file" && step.Stdin.Offset > 0 && step.Stdin.Offset <= len(step.Stdin.Data) {
			stdinFile.off = step.Stdin.Offset
		}
	}
	if stdinFile.kind == "" {
		stdinFile.kind = "pipe"
	}
	return stdinFile
}

// resolve follows symbolic links of the virtual file system (a few levels).
func resolve(name string) string {
	for i := 0; i < 8; i++ {
		fsp := lookup(name)
		if fsp == nil || fsp.SymlinkTo == "" {
			return name
		}
		name = fsp.SymlinkTo
	}
	return name
}

func lookup(name string) *FileSpec {
	if step.Files == nil {
		return nil
	}
	if fsp, ok := step.Files[name]; ok {
		return fsp
	}
	return step.Files[filepath.Clean(name)]
}

// Open replaces os.Open.
func Open(name string) (*File, error) {
	if !active {
		fp, err := os.Open(name)
		if err != nil {
			return nil, err
		}
		return &File{name: name, pass: fp}, nil
	}
	name = resolve(name)
	if c := findCreated(name); c != nil {
		// the path was created (or truncated) earlier by this very process
		b, err := os.ReadFile(c.Real)
		if err != nil {
			trouble("read backing file: " + err.Error())
		}
		plan := Plan{}
		if fsp := lookup(name); fsp != nil {
			plan = fsp.Plan
		}
		journal.Faults = append(journal.Faults, "open:OWN-OUTPUT:"+name)
		return newReadFile(name, b, plan), nil
	}
	fsp := lookup(name)
	if fsp == nil && dirExists(name) {
		// a directory: it can be opened and listed, not read
		f := newReadFile(name, nil, Plan{})
		f.isDir = true
		return f, nil
	}
	if fsp == nil {
		journal.Faults = append(journal.Faults, "open:ENOENT:"+name)
		return nil, &fs.PathError{Op: "open", Path: name, Err: syscall.ENOENT}
	}
	switch fsp.OpenErr {
	case "":
	case "EISDIR":
		// opening a directory succeeds; reading it fails
		journal.Faults = append(journal.Faults, "open:EISDIR:"+name)
		f := newReadFile(name, nil, Plan{})
		f.isDir = true
		return f, nil
	default:
		journal.Faults = append(journal.Faults, "open:"+fsp.OpenErr+":"+name)
		return nil, &fs.PathError{Op: "open", Path: name, Err: errnoOf(fsp.OpenErr)}
	}
	f := newReadFile(name, fsp.Data, fsp.Plan)
	if fsp.Pipe {
		f.isPipe = true
		journal.Faults = append(journal.Faults, "open:FIFO:"+name)
	}
	return f, nil
}

// Create replaces os.Create.
func Create(name string) (*File, error) {
	return OpenFile(name, os.O_RDWR|os.O_CREATE|os.O_TRUNC, 0o666)
}

// OpenFile replaces os.OpenFile. A FileSpec with Data at a path that is
// opened for writing is a file that already exists with that content: it is
// only emptied when the caller asks for O_TRUNC, exactly as on a real disk.
func OpenFile(name string, flag int, perm os.FileMode) (*File, error) {
	writing := flag&(os.O_WRONLY|os.O_RDWR|os.O_CREATE|os.O_TRUNC|os.O_APPEND) != 0
	if !writing {
		f, err := Open(name)
		if err == nil && f != nil && flag&syscall.O_NONBLOCK != 0 {
			f.nonblock = true
		}
		return f, err
	}
	if !active {
		fp, err := os.OpenFile(name, flag, perm)
		if err != nil {
			return nil, err
		}
		return &File{name: name, real: fp}, nil
	}
	if name == "" {
		return nil, &fs.PathError{Op: "open", Path: name, Err: syscall.ENOENT}
	}
	if l := lookup(name); l != nil && l.SymlinkTo != "" {
		if flag&syscall.O_NOFOLLOW != 0 {
			journal.Faults = append(journal.Faults, "open:ELOOP:"+name)
			return nil, &fs.PathError{Op: "open", Path: name, Err: syscall.ELOOP}
		}
		journal.Faults = append(journal.Faults, "open:SYMLINK:"+name)
		name = resolve(name)
	}
	fsp := lookup(name)
	if fsp != nil && fsp.CreateErr != "" {
		journal.Faults = append(journal.Faults, "create:"+fsp.CreateErr+":"+name)
		return nil, &fs.PathError{Op: "open", Path: name, Err: errnoOf(fsp.CreateErr)}
	}
	exists := fsp != nil && fsp.OpenErr == "" && (fsp.Data != nil || fsp.Pipe)
	// a file created earlier in this process also exists
	var prior *Created
	for _, c := range created {
		if c.Virtual == name {
			prior = c
			exists = true
		}
	}
	if !exists && flag&os.O_CREATE == 0 {
		journal.Faults = append(journal.Faults, "open:ENOENT:"+name)
		return nil, &fs.PathError{Op: "open", Path: name, Err: syscall.ENOENT}
	}
	if exists && flag&os.O_EXCL != 0 && flag&os.O_CREATE != 0 {
		return nil, &fs.PathError{Op: "open", Path: name, Err: syscall.EEXIST}
	}
	dir := step.OutDir
	if dir == "" {
		dir = "."
	}
	var cr *Created
	if prior != nil {
		cr = prior
	} else {
		cr = &Created{Virtual: name, Real: filepath.Join(dir, "created."+strconv.Itoa(len(created)))}
		created = append(created, cr)
		var initial []byte
		if exists {
			initial = fsp.Data
			journal.Faults = append(journal.Faults, "create:EXISTING:"+name)
		}
		if err := os.WriteFile(cr.Real, initial, 0o644); err != nil {
			trouble("create backing file: " + err.Error())
		}
	}
	rflag := os.O_RDWR
	if flag&os.O_TRUNC != 0 {
		rflag |= os.O_TRUNC
	}
	if flag&os.O_APPEND != 0 {
		rflag |= os.O_APPEND
	}
	fp, err := os.OpenFile(cr.Real, rflag, 0o644)
	if err != nil {
		trouble("open backing file: " + err.Error())
	}
	cr.Closed = false
	out := &File{name: name, real: fp, cr: cr}
	if fsp != nil {
		out.wplan = fsp.WritePlan
	}
	if fsp != nil && fsp.Pipe {
		out.isPipe = true
		journal.Faults = append(journal.Faults, "create:FIFO:"+name)
	}
	return out, nil
}

// ReadFile replaces os.ReadFile.
func ReadFile(name string) ([]byte, error) {
	f, err := Open(name)
	if err != nil {
		return nil, err
	}
	defer f.Close()
	return io.ReadAll(f)
}

// WriteFile replaces os.WriteFile.
func WriteFile(name string, data []byte, perm os.FileMode) error {
	f, err := Create(name)
	if err != nil {
		return err
	}
	_, err = f.Write(data)
	if err1 := f.Close(); err1 != nil && err == nil {
		err = err1
	}
	return err
}

func (f *File) Name() string { return f.name }

func (f *File) Read(p []byte) (int, error) {
	if f.pass != nil {
		return f.pass.Read(p)
	}
	if f.real != nil {
		return 0, &fs.PathError{Op: "read", Path: f.name, Err: syscall.EBADF}
	}
	if f.closed {
		return 0, &fs.PathError{Op: "read", Path: f.name, Err: fs.ErrClosed}
	}
	if f.isDir {
		return 0, &fs.PathError{Op: "read", Path: f.name, Err: syscall.EISDIR}
	}
	if len(p) == 0 {
		return 0, nil
	}
	f.stat.Reads++
	if len(f.plan.DelaysUs) > 0 {
		// a slow source: the reader waits (simulated time) before this read returns
		d := f.plan.DelaysUs[f.di%len(f.plan.DelaysUs)]
		f.di++
		if d > 0 && f.nonblock && f.isPipe {
			// a FIFO opened with O_NONBLOCK: no writer has opened it yet => end
			// of file at once; a writer that is there but slow => EAGAIN
			journal.Faults = append(journal.Faults, "read:NONBLOCK-FIFO:"+f.name)
			if f.off == 0 {
				return 0, io.EOF
			}
			return 0, &fs.PathError{Op: "read", Path: f.name, Err: syscall.EAGAIN}
		}
		if d > 0 {
			journal.DelayedReads++
			Sleep(time.Duration(d) * time.Microsecond)
		}
	}
	if f.plan.ErrNo != "" && f.off >= f.plan.ErrAfter {
		if f.errReads == 0 {
			journal.Faults = append(journal.Faults, "read:"+f.plan.ErrNo+":"+f.name)
		}
		f.errReads++
		if f.errReads > EOFSpinLimit {
			journal.Note = "error-spin on " + f.name
			finish("eof-spin", ExitEOFSpin)
		}
		return 0, &fs.PathError{Op: "read", Path: f.name, Err: errnoOf(f.plan.ErrNo)}
	}
	remaining := len(f.data) - f.off
	if remaining == 0 {
		f.stat.EOFReads++
		if f.atEOF && f.stat.EOFReads > EOFSpinLimit {
			journal.Note = "eof-spin on " + f.name
			finish("eof-spin", ExitEOFSpin)
		}
		f.atEOF = true
		return 0, io.EOF
	}
	want := len(p)
	if (f.kind == "pipe" || f.isPipe) && want > 65536 {
		// a pipe hands over at most its capacity per read, however large the buffer
		want = 65536
	}
	if len(f.plan.Chunks) > 0 {
		c := f.plan.Chunks[f.ci%len(f.plan.Chunks)]
		f.ci++
		if c <= 0 {
			if f.zeros < 3 {
				f.zeros++
				f.stat.ZeroReads++
				return 0, nil
			}
			c = 1
		}
		if c < want {
			want = c
		}
	}
	f.zeros = 0
	n := want
	if n > remaining {
		n = remaining
	}
	if f.plan.ErrNo != "" && f.off+n > f.plan.ErrAfter {
		n = f.plan.ErrAfter - f.off
	}
	if n < len(p) && n < remaining {
		f.stat.ShortReads++
	}
	copy(p, f.data[f.off:f.off+n])
	f.off += n
	if f.off < len(f.data) && !utf8.RuneStart(f.data[f.off]) {
		f.stat.SplitRune++
	}
	if f.off == len(f.data) && f.plan.EOFWithData {
		f.atEOF = true
		f.stat.EOFJoined = true
		return n, io.EOF
	}
	return n, nil
}

// Stderr replaces os.Stderr where crd names it (the writer handed to the log
// handler). The bytes go to the real descriptor 2. A slow consumer of the log
// only advances the simulated clock: the log handler holds a real lock while
// it writes, so the task must not hand over the baton here; timers that
// became due fire and their goroutines run at the next scheduling point.
func Stderr() *File {
	if stderrFile != nil {
		return stderrFile
	}
	stderrFile = &File{name: "/dev/stderr", real: os.Stderr, isStderr: true}
	if active {
		stderrFile.wplan = step.Stderr
	}
	return stderrFile
}

func (f *File) Write(p []byte) (int, error) {
	if f.real != nil && f.closed {
		return 0, &fs.PathError{Op: "write", Path: f.name, Err: fs.ErrClosed}
	}
	if f.real != nil && f.wplan != nil && len(f.wplan.DelaysUs) > 0 && !(f.isStderr && f.wdi >= len(f.wplan.DelaysUs)) {
		// (the log's delays are not cycled: a slow log consumer stalls a few
		// writes; a write there cannot hand over the baton, so an endless series
		// of stalls would keep a logging goroutine runnable for ever)
		d := f.wplan.DelaysUs[f.wdi%len(f.wplan.DelaysUs)]
		f.wdi++
		if d > 0 {
			journal.DelayedWrites++
			if f.isStderr {
				simOffset += time.Duration(d) * time.Microsecond
				journal.JumpedUs += d
				fireDue()
			} else {
				Sleep(time.Duration(d) * time.Microsecond)
			}
		}
	}
	if f.real != nil && f.wplan != nil && f.wplan.ErrNo != "" {
		room := f.wplan.ErrAfter - f.written
		if room < 0 {
			room = 0
		}
		if len(p) > room {
			n := 0
			if room > 0 {
				n, _ = f.real.Write(p[:room])
				f.written += n
			}
			if !f.wfired {
				f.wfired = true
				journal.Faults = append(journal.Faults, "write:"+f.wplan.ErrNo+":"+f.name)
			}
			return n, &fs.PathError{Op: "write", Path: f.name, Err: errnoOf(f.wplan.ErrNo)}
		}
	}
	if f.real != nil {
		n, err := f.real.Write(p)
		f.written += n
		return n, err
	}
	return 0, &fs.PathError{Op: "write", Path: f.name, Err: syscall.EBADF}
}

func (f *File) WriteString(s string) (int, error) { return f.Write([]byte(s)) }

func (f *File) Close() error {
	if f.pass != nil {
		return f.pass.Close()
	}
	if f.closed {
		return &fs.PathError{Op: "close", Path: f.name, Err: fs.ErrClosed}
	}
	f.closed = true
	f.stat.Closed = true
	if f.real != nil {
		if f.cr != nil {
			f.cr.Closed = true
		}
		if f.isStderr {
			return nil // descriptor 2 stays open for the runtime's own messages
		}
		return f.real.Close()
	}
	return nil
}

func (f *File) Chmod(mode os.FileMode) error {
	if f.pass != nil {
		return f.pass.Chmod(mode)
	}
	return nil
}

func (f *File) Truncate(size int64) error {
	if f.pass != nil {
		return f.pass.Truncate(size)
	}
	if f.isPipe {
		return &fs.PathError{Op: "truncate", Path: f.name, Err: syscall.EINVAL}
	}
	if f.real != nil {
		return f.real.Truncate(size)
	}
	return &fs.PathError{Op: "truncate", Path: f.name, Err: syscall.EINVAL}
}

func (f *File) Sync() error {
	if f.isPipe {
		// fsync on a FIFO or a character device
		return &fs.PathError{Op: "sync", Path: f.name, Err: syscall.EINVAL}
	}
	if f.real != nil {
		return f.real.Sync()
	}
	return nil
}

func (f *File) Seek(offset int64, whence int) (int64, error) {
	if f.pass != nil {
		return f.pass.Seek(offset, whence)
	}
	if f.real != nil && !f.isPipe {
		return f.real.Seek(offset, whence)
	}
	// a regular file opened for reading (FILE argument, redirected stdin) can seek
	if f.real == nil && !f.isPipe && !f.isDir && f.kind != "pipe" && f.kind != "chardev" {
		var base int64
		switch whence {
		case io.SeekStart:
		case io.SeekCurrent:
			base = int64(f.off)
		case io.SeekEnd:
			base = int64(len(f.data))
		default:
			return 0, &fs.PathError{Op: "seek", Path: f.name, Err: syscall.EINVAL}
		}
		n := base + offset
		if n < 0 {
			return 0, &fs.PathError{Op: "seek", Path: f.name, Err: syscall.EINVAL}
		}
		if n > int64(len(f.data)) {
			n = int64(len(f.data))
		}
		f.off = int(n)
		f.atEOF = false
		return n, nil
	}
	return 0, &fs.PathError{Op: "seek", Path: f.name, Err: syscall.ESPIPE}
}

func (f *File) Fd() uintptr {
	if f.isStdout {
		return 1
	}
	if f.isStderr {
		return 2
	}
	return ^uintptr(0)
}

type fileInfo struct {
	name    string
	size    int64
	dir     bool
	pipe    bool
	chardev bool
}

func (i fileInfo) Name() string { return filepath.Base(i.name) }
func (i fileInfo) Size() int64  { return i.size }
func (i fileInfo) Mode() fs.FileMode {
	if i.dir {
		return fs.ModeDir | 0o755
	}
	if i.pipe {
		return fs.ModeNamedPipe | 0o600
	}
	if i.chardev {
		return fs.ModeDevice | fs.ModeCharDevice | 0o666
	}
	return 0o644
}
func (i fileInfo) ModTime() time.Time { return time.Unix(0, 0) }
func (i fileInfo) IsDir() bool        { return i.dir }
func (i fileInfo) Sys() any           { return nil }

func (f *File) Stat() (os.FileInfo, error) {
	if f.pass != nil {
		return f.pass.Stat()
	}
	if f.isStdout && f.wplan != nil && f.wplan.Kind == "file" {
		// standard output redirected to a regular file (>> log: it may hold data already)
		return fileInfo{name: f.name, size: int64(f.wplan.Existing + f.written)}, nil
	}
	if f.real != nil && f.isPipe {
		return fileInfo{name: f.name, size: 0, pipe: true}, nil
	}
	if f.real != nil {
		return f.real.Stat()
	}
	if f.isPipe || f.kind == "pipe" {
		return fileInfo{name: f.name, size: 0, pipe: true}, nil
	}
	if f.kind == "chardev" {
		return fileInfo{name: f.name, size: 0, chardev: true}, nil
	}
	return fileInfo{name: f.name, size: int64(len(f.data)), dir: f.isDir}, nil
}

// Stat replaces os.Stat.
func Stat(name string) (os.FileInfo, error) {
	if !active {
		return os.Stat(name)
	}
	name = resolve(name)
	if c := findCreated(name); c != nil {
		if fi, err := os.Stat(c.Real); err == nil {
			return fileInfo{name: name, size: fi.Size()}, nil
		}
	}
	fsp := lookup(name)
	if fsp == nil && dirExists(name) {
		return fileInfo{name: name, dir: true}, nil
	}
	if fsp == nil || (fsp.OpenErr != "" && fsp.OpenErr != "EISDIR" && fsp.OpenErr != "EACCES") || (fsp.Data == nil && fsp.OpenErr == "" && !fsp.Pipe) {
		return nil, &fs.PathError{Op: "stat", Path: name, Err: syscall.ENOENT}
	}
	if fsp.Pipe {
		return fileInfo{name: name, size: 0, pipe: true}, nil
	}
	return fileInfo{name: name, size: int64(len(fsp.Data)), dir: fsp.OpenErr == "EISDIR"}, nil
}

// dirExists: the virtual root, its tmp directory, and every directory that
// holds a file of the scenario (unless creating there is set up to fail with
// ENOENT/ENOTDIR) or a file created by this process.
func dirExists(name string) bool {
	name = filepath.Clean(name)
	switch name {
	case "/", "/sim", "/sim/tmp", "/sim/home", "/sim/cwd", ".":
		return true
	}
	if madeDirs[name] {
		return true
	}
	prefix := name + "/"
	for k, f := range step.Files {
		if len(k) > len(prefix) && k[:len(prefix)] == prefix && f.CreateErr != "ENOENT" && f.CreateErr != "ENOTDIR" {
			return true
		}
	}
	for _, c := range created {
		if len(c.Virtual) > len(prefix) && c.Virtual[:len(prefix)] == prefix {
			return true
		}
	}
	return false
}

// SameFile replaces os.SameFile: two descriptions of the virtual file system
// are the same file when they name the same path.
func SameFile(a, b os.FileInfo) bool {
	x, okx := a.(fileInfo)
	y, oky := b.(fileInfo)
	if okx && oky {
		return filepath.Clean(x.name) == filepath.Clean(y.name)
	}
	if okx || oky {
		return false
	}
	return os.SameFile(a, b)
}

// ---------------------------------------------------------------------------
// directories

// dirChildren lists the immediate children of a directory of the virtual
// file system, sorted by name.
func dirChildren(dir string) []fileInfo {
	dir = filepath.Clean(dir)
	prefix := dir + "/"
	if dir == "/" {
		prefix = "/"
	}
	seen := map[string]fileInfo{}
	add := func(path string, size int64, pipe bool) {
		if len(path) <= len(prefix) || path[:len(prefix)] != prefix {
			return
		}
		rest := path[len(prefix):]
		for i := 0; i < len(rest); i++ {
			if rest[i] == '/' {
				seen[rest[:i]] = fileInfo{name: prefix + rest[:i], dir: true}
				return
			}
		}
		seen[rest] = fileInfo{name: path, size: size, pipe: pipe}
	}
	for k, f := range step.Files {
		if f.OpenErr == "ENOENT" || (f.Data == nil && f.OpenErr == "" && !f.Pipe) {
			continue
		}
		if f.OpenErr == "EISDIR" {
			seen[filepath.Base(k)] = fileInfo{name: k, dir: true}
			continue
		}
		add(filepath.Clean(k), int64(len(f.Data)), f.Pipe)
	}
	for _, c := range created {
		if !c.Removed {
			if fi, err := os.Stat(c.Real); err == nil {
				add(filepath.Clean(c.Virtual), fi.Size(), false)
			}
		}
	}
	for d := range madeDirs {
		add(d+"/.", 0, false)
	}
	names := make([]string, 0, len(seen))
	for n := range seen {
		if n != "." && n != "" {
			names = append(names, n)
		}
	}
	sort.Strings(names)
	out := make([]fileInfo, 0, len(names))
	for _, n := range names {
		out = append(out, seen[n])
	}
	return out
}

type dirEntry struct{ fi fileInfo }

func (e dirEntry) Name() string               { return e.fi.Name() }
func (e dirEntry) IsDir() bool                { return e.fi.IsDir() }
func (e dirEntry) Type() fs.FileMode          { return e.fi.Mode().Type() }
func (e dirEntry) Info() (fs.FileInfo, error) { return e.fi, nil }

// ReadDir replaces os.ReadDir: sorted by file name, as documented.
func ReadDir(name string) ([]os.DirEntry, error) {
	if !active {
		return os.ReadDir(name)
	}
	if !dirExists(name) {
		return nil, &fs.PathError{Op: "open", Path: name, Err: syscall.ENOENT}
	}
	var out []os.DirEntry
	for _, fi := range dirChildren(name) {
		out = append(out, dirEntry{fi})
	}
	return out, nil
}

// directory order: what readdir(2) returns is unspecified (hash order, order
// of creation, ...): a seeded permutation of the names, decided per listing.
func (f *File) dirOrder() ([]fileInfo, error) {
	if f.pass != nil {
		return nil, &fs.PathError{Op: "readdir", Path: f.name, Err: syscall.ENOTSUP}
	}
	if !f.isDir {
		return nil, &fs.PathError{Op: "readdirent", Path: f.name, Err: syscall.ENOTDIR}
	}
	if f.listed {
		return nil, nil
	}
	f.listed = true
	ch := dirChildren(f.name)
	perm := sitePerm("readdir:"+f.name, len(ch))
	out := make([]fileInfo, len(ch))
	for i, p := range perm {
		out[i] = ch[p]
	}
	return out, nil
}

// Readdirnames, Readdir, ReadDir replace the methods of *os.File (directory
// order; n <= 0: everything; n > 0 is served as one batch, then io.EOF).
func (f *File) Readdirnames(n int) ([]string, error) {
	if f.pass != nil {
		return f.pass.Readdirnames(n)
	}
	l, err := f.dirOrder()
	if err != nil {
		return nil, err
	}
	if l == nil && n > 0 {
		return nil, io.EOF
	}
	out := make([]string, 0, len(l))
	for _, fi := range l {
		out = append(out, fi.Name())
	}
	return out, nil
}

func (f *File) Readdir(n int) ([]os.FileInfo, error) {
	if f.pass != nil {
		return f.pass.Readdir(n)
	}
	l, err := f.dirOrder()
	if err != nil {
		return nil, err
	}
	if l == nil && n > 0 {
		return nil, io.EOF
	}
	out := make([]os.FileInfo, 0, len(l))
	for _, fi := range l {
		out = append(out, fi)
	}
	return out, nil
}

func (f *File) ReadDir(n int) ([]os.DirEntry, error) {
	if f.pass != nil {
		return f.pass.ReadDir(n)
	}
	l, err := f.dirOrder()
	if err != nil {
		return nil, err
	}
	if l == nil && n > 0 {
		return nil, io.EOF
	}
	out := make([]os.DirEntry, 0, len(l))
	for _, fi := range l {
		out = append(out, dirEntry{fi})
	}
	return out, nil
}
