package simrt

import (
	"io"
	"io/fs"
	"os"
	"path/filepath"
	"strconv"
	"strings"
	"syscall"
)

// ---------------------------------------------------------------------------
// io.Pipe: an in-memory synchronous pipe between tasks, built on the
// simulator's own blocking (the real io.Pipe would block the task that holds
// the baton for real).

type pipe struct {
	buf     []byte // data of the write in progress not yet consumed
	writing bool
	rerr    error // set by the reader's Close
	werr    error // set by the writer's Close
	waitR   []*task
	waitW   []*task
}

type PipeReader struct{ p *pipe }
type PipeWriter struct{ p *pipe }

// Pipe replaces io.Pipe.
func Pipe() (*PipeReader, *PipeWriter) {
	p := &pipe{}
	return &PipeReader{p}, &PipeWriter{p}
}

func (r *PipeReader) Read(b []byte) (int, error) {
	p := r.p
	yieldPoint()
	for {
		if p.rerr != nil {
			return 0, io.ErrClosedPipe
		}
		if len(p.buf) > 0 {
			n := copy(b, p.buf)
			p.buf = p.buf[n:]
			if len(p.buf) == 0 {
				wakeAll(&p.waitW)
			}
			return n, nil
		}
		if p.werr != nil {
			return 0, p.werr
		}
		p.waitR = append(p.waitR, cur)
		block()
	}
}

func (r *PipeReader) Close() error { return r.CloseWithError(nil) }

func (r *PipeReader) CloseWithError(err error) error {
	if err == nil {
		err = io.ErrClosedPipe
	}
	if r.p.rerr == nil {
		r.p.rerr = err
	}
	wakeAll(&r.p.waitW)
	wakeAll(&r.p.waitR)
	yieldPoint()
	return nil
}

func (w *PipeWriter) Write(b []byte) (int, error) {
	p := w.p
	yieldPoint()
	if p.werr != nil {
		return 0, io.ErrClosedPipe
	}
	// one write at a time
	for p.writing {
		p.waitW = append(p.waitW, cur)
		block()
	}
	if p.rerr != nil {
		return 0, p.rerr
	}
	if len(b) == 0 {
		return 0, nil
	}
	p.writing = true
	p.buf = b
	wakeAll(&p.waitR)
	for len(p.buf) > 0 {
		if p.rerr != nil {
			n := len(b) - len(p.buf)
			p.buf = nil
			p.writing = false
			wakeAll(&p.waitW)
			return n, p.rerr
		}
		p.waitW = append(p.waitW, cur)
		block()
	}
	p.writing = false
	wakeAll(&p.waitW)
	return len(b), nil
}

func (w *PipeWriter) Close() error { return w.CloseWithError(nil) }

func (w *PipeWriter) CloseWithError(err error) error {
	if err == nil {
		err = io.EOF
	}
	if w.p.werr == nil {
		w.p.werr = err
	}
	wakeAll(&w.p.waitR)
	wakeAll(&w.p.waitW)
	yieldPoint()
	return nil
}

// ---------------------------------------------------------------------------
// more of package os on the virtual file system

// CreateTemp replaces os.CreateTemp.
func CreateTemp(dir, pattern string) (*File, error) {
	if !active {
		fp, err := os.CreateTemp(dir, pattern)
		if err != nil {
			return nil, err
		}
		return &File{name: fp.Name(), real: fp}, nil
	}
	if dir == "" {
		dir = "/sim/tmp"
	}
	n := strconv.Itoa(len(created))
	name := pattern + n
	if i := strings.LastIndex(pattern, "*"); i >= 0 {
		name = pattern[:i] + n + pattern[i+1:]
	}
	return OpenFile(filepath.Join(dir, name), os.O_RDWR|os.O_CREATE|os.O_EXCL, 0o600)
}

// TempDir replaces os.TempDir.
func TempDir() string {
	if !active {
		return os.TempDir()
	}
	return "/sim/tmp"
}

func findCreated(name string) *Created {
	for _, c := range created {
		if c.Virtual == name && !c.Removed {
			return c
		}
	}
	return nil
}

// Rename replaces os.Rename. Renaming onto a path whose FileSpec carries
// RenameErr fails with that errno (e.g. EXDEV: another file system).
func Rename(oldpath, newpath string) error {
	if !active {
		return os.Rename(oldpath, newpath)
	}
	if fsp := lookup(newpath); fsp != nil && fsp.RenameErr != "" {
		journal.Faults = append(journal.Faults, "rename:"+fsp.RenameErr+":"+newpath)
		return &os.LinkError{Op: "rename", Old: oldpath, New: newpath, Err: errnoOf(fsp.RenameErr)}
	}
	c := findCreated(oldpath)
	if c == nil {
		return &os.LinkError{Op: "rename", Old: oldpath, New: newpath, Err: syscall.ENOENT}
	}
	if prev := findCreated(newpath); prev != nil {
		prev.Removed = true
	}
	c.Virtual = newpath
	return nil
}

// Remove replaces os.Remove.
func Remove(name string) error {
	if !active {
		return os.Remove(name)
	}
	if c := findCreated(name); c != nil {
		c.Removed = true
		return nil
	}
	return &fs.PathError{Op: "remove", Path: name, Err: syscall.ENOENT}
}

// ---------------------------------------------------------------------------
// process identity and unseeded randomness: constant per scenario, so that a
// tree that lets them leak into its output gives a replayable difference
// between two scenarios instead of an unrepeatable one.

func Getpid() int  { return 1000 + int(step.Seed%30000) }
func Getppid() int { return 1 }

func Hostname() (string, error) { return "simhost", nil }

var unseeded *rng

func rnd() *rng {
	if unseeded == nil {
		unseeded = newStream("math/rand")
	}
	return unseeded
}

func RandIntn(n int) int {
	if n <= 0 {
		panic("invalid argument to Intn")
	}
	return rnd().intn(n)
}
func RandInt() int         { return int(rnd().next() >> 1) }
func RandInt63() int64     { return int64(rnd().next() >> 1) }
func RandInt31() int32     { return int32(rnd().next() >> 33) }
func RandUint32() uint32   { return uint32(rnd().next() >> 32) }
func RandUint64() uint64   { return rnd().next() }
func RandFloat64() float64 { return float64(rnd().next()>>11) / (1 << 53) }
func RandInt63n(n int64) int64 {
	if n <= 0 {
		panic("invalid argument to Int63n")
	}
	return int64(rnd().next()>>1) % n
}
func RandInt31n(n int32) int32 { return int32(RandInt63n(int64(n))) }
func RandPerm(n int) []int {
	p := make([]int, n)
	for i := range p {
		p[i] = i
	}
	RandShuffle(n, func(i, j int) { p[i], p[j] = p[j], p[i] })
	return p
}
func RandShuffle(n int, swap func(i, j int)) {
	for i := n - 1; i > 0; i-- {
		swap(i, rnd().intn(i+1))
	}
}
func RandSeed(seed int64) {}

// ---------------------------------------------------------------------------
// per-user directories and directory creation on the virtual file system

var madeDirs = map[string]bool{}

func UserCacheDir() (string, error)  { return "/sim/home/.cache", nil }
func UserConfigDir() (string, error) { return "/sim/home/.config", nil }
func UserHomeDir() (string, error)   { return "/sim/home", nil }
func Getwd() (string, error)         { return "/sim/cwd", nil }

// MkdirAll replaces os.MkdirAll.
func MkdirAll(path string, perm os.FileMode) error {
	if !active {
		return os.MkdirAll(path, perm)
	}
	for p := filepath.Clean(path); p != "/" && p != "."; p = filepath.Dir(p) {
		madeDirs[p] = true
	}
	return nil
}

// Mkdir replaces os.Mkdir.
func Mkdir(path string, perm os.FileMode) error {
	if !active {
		return os.Mkdir(path, perm)
	}
	if dirExists(path) {
		return &fs.PathError{Op: "mkdir", Path: path, Err: syscall.EEXIST}
	}
	madeDirs[filepath.Clean(path)] = true
	return nil
}

// crypto/rand: the operating system's randomness is a seeded stream here
// (a tree whose output depends on it differs between scenarios, replayably).

type cryptoReader struct{}

func (cryptoReader) Read(b []byte) (int, error) {
	r := rnd()
	for i := range b {
		b[i] = byte(r.next() >> 56)
	}
	return len(b), nil
}

// CryptoReader replaces crypto/rand.Reader.
var CryptoReader io.Reader = cryptoReader{}

// CryptoRead replaces crypto/rand.Read.
func CryptoRead(b []byte) (int, error) { return CryptoReader.Read(b) }

// CryptoText replaces crypto/rand.Text.
func CryptoText() string {
	const alphabet = "ABCDEFGHIJKLMNOPQRSTUVWXYZ234567"
	b := make([]byte, 26)
	r := rnd()
	for i := range b {
		b[i] = alphabet[r.next()>>59]
	}
	return string(b)
}
