// Package simrt is the in-process half of the crd simulator. It is copied
// verbatim into an instrumented scratch copy of berquerant/crd (as package
// github.com/berquerant/crd/simrt) and is also imported by the driver for the
// scenario and journal types. Standard library only.
//
// Everything an execution of crd can vary in, apart from its arguments and
// input bytes, is decided here from the Step handed to the process:
// map iteration order, goroutine scheduling, how stdin/file bytes are
// delivered, which opens/creates fail, the logical clock (ticks) and its
// budget. One Step => one exactly repeatable execution.
package simrt

import (
	"encoding/json"
	"os"
	"runtime"
	"sort"
	"syscall"
)

// ---------------------------------------------------------------------------
// Scenario (one simulated process)

// Plan says how the bytes of a stream are handed to the reader.
type Plan struct {
	// Chunks are the sizes of successive reads (cycled). 0 means a (0, nil)
	// read; at most 3 in a row are honoured. Empty: as much as asked for.
	Chunks []int `json:"chunks,omitempty"`
	// EOFWithData delivers io.EOF together with the last data bytes instead of
	// on a separate read.
	EOFWithData bool `json:"eof_with_data,omitempty"`
	// ErrAfter >= 0 with ErrNo set: after that many bytes have been delivered
	// the next read fails with the errno (the stream breaks; it is not an EOF).
	ErrNo    string `json:"errno,omitempty"`
	ErrAfter int    `json:"err_after,omitempty"`
	// DelaysUs: simulated microseconds the source takes before successive
	// reads return (cycled): a slow upstream.
	DelaysUs []int64 `json:"delays_us,omitempty"`
}

// WritePlan says how a destination (standard output, an -o file) takes bytes.
type WritePlan struct {
	// ErrNo set: after ErrAfter bytes have been accepted every further write
	// fails with the errno (ENOSPC: the disk is full; EIO; EDQUOT as ENOSPC).
	// A write straddling the limit is short: the bytes that fit are written.
	ErrNo    string `json:"errno,omitempty"`
	ErrAfter int    `json:"err_after"`
	// DelaysUs: simulated microseconds successive writes take (cycled): a slow
	// or stalled consumer (a pager, a full pipe whose reader sleeps, a network
	// file system).
	DelaysUs []int64 `json:"delays_us,omitempty"`
	// Kind (standard output only): "" / "pipe", or "file": a regular file
	// opened for appending that already holds Existing bytes (>> log).
	Kind     string `json:"kind,omitempty"`
	Existing int    `json:"existing,omitempty"`
}

type Stream struct {
	Data []byte `json:"data"`
	Plan Plan   `json:"plan"`
	// Kind says what standard input is: "" or "pipe" (a pipe), "file" (a
	// redirected regular file), "chardev" (/dev/null: no data).
	Kind string `json:"kind,omitempty"`
	// Offset (Kind "file" only): the descriptor's position when crd starts;
	// Data holds the whole file, the bytes before Offset were consumed by
	// somebody else ({ read header; crd ...; } < file).
	Offset int `json:"offset,omitempty"`
}

// FileSpec is one entry of the virtual file system.
type FileSpec struct {
	Data []byte `json:"data,omitempty"`
	Plan Plan   `json:"plan"`
	// OpenErr: "", "ENOENT", "EACCES", "EISDIR" (reported when read), "EIO".
	OpenErr string `json:"open_err,omitempty"`
	// CreateErr: "", "ENOENT", "EACCES", "EISDIR".
	CreateErr string `json:"create_err,omitempty"`
	// RenameErr: os.Rename onto this path fails with the errno (EXDEV, EACCES).
	RenameErr string `json:"rename_err,omitempty"`
	// SymlinkTo: the path is a symbolic link to that path (followed by Open,
	// OpenFile, Stat; refused with ELOOP under O_NOFOLLOW; Lstat sees the link).
	SymlinkTo string `json:"symlink_to,omitempty"`
	// WritePlan: faults of the write side when the path is created/opened for writing.
	WritePlan *WritePlan `json:"write_plan,omitempty"`
	// Pipe: the path is a FIFO (process substitution): Stat reports size 0 and
	// a named-pipe mode, the bytes only arrive through Read.
	Pipe bool `json:"pipe,omitempty"`
}

// Step is everything one simulated crd process depends on besides its code.
type Step struct {
	Argv        []string             `json:"argv"`
	Stdin       *Stream              `json:"stdin,omitempty"`
	Stdout      *WritePlan           `json:"stdout,omitempty"` // faults of standard output (explicit writers only)
	Stderr      *WritePlan           `json:"stderr,omitempty"` // standard error as crd names it (the log handler): delays only
	Files       map[string]*FileSpec `json:"files,omitempty"`
	Seed        uint64               `json:"seed"`
	MapPolicy   string               `json:"map_policy,omitempty"`   // sorted|reverse|rotate|shuffle
	SchedPolicy string               `json:"sched_policy,omitempty"` // run-to-block|random|round-robin|prefer-low|prefer-high|mostly-low|mostly-high|rtb-high|rtb-random
	StepBudget  int64                `json:"step_budget,omitempty"`
	// PreemptEvery n > 0: with several tasks alive, the running task is
	// pre-empted with probability 1/n before each statement (statement-level
	// interleaving of unsynchronised code; 0: only at synchronisation points).
	PreemptEvery int `json:"preempt_every,omitempty"`
	// CPUs is what runtime.NumCPU / GOMAXPROCS(0) report (0: derived from Seed).
	CPUs int `json:"cpus,omitempty"`
	// OutDir is where created files are materialised (real directory).
	OutDir string `json:"out_dir,omitempty"`
	// JournalPath is where the journal is written at exit.
	JournalPath string `json:"journal_path,omitempty"`
	// AddrLimit is RLIMIT_AS in bytes (0: leave alone).
	AddrLimit uint64 `json:"addr_limit,omitempty"`
}

// ---------------------------------------------------------------------------
// Journal (what actually happened)

type SiteStat struct {
	Visits     int    `json:"visits"`
	Nontrivial int    `json:"nontrivial"` // visits with >= 2 keys
	NonIdent   int    `json:"nonident"`   // visits whose order differed from sorted
	Hash       uint64 `json:"hash"`       // hash of the permutations applied
	MaxLen     int    `json:"maxlen"`
}

type StreamStat struct {
	Name       string `json:"name"`
	Bytes      int    `json:"bytes"`
	Reads      int    `json:"reads"`
	ZeroReads  int    `json:"zero_reads"`
	ShortReads int    `json:"short_reads"` // reads that returned less than asked and less than available
	SplitRune  int    `json:"split_rune"`  // reads that ended inside a UTF-8 sequence
	EOFReads   int    `json:"eof_reads"`   // reads issued at/after end of data
	EOFJoined  bool   `json:"eof_joined"`  // EOF was delivered together with data
	Closed     bool   `json:"closed"`
}

type Created struct {
	Virtual string `json:"virtual"`
	Real    string `json:"real"`
	Closed  bool   `json:"closed"`
	Removed bool   `json:"removed,omitempty"`
}

type Journal struct {
	Verdict  string `json:"verdict"` // exit|step-budget|eof-spin|deadlock
	ExitCode int    `json:"exit_code"`
	Ticks    int64  `json:"ticks"`

	MapSites map[string]*SiteStat `json:"map_sites,omitempty"`
	Streams  []*StreamStat        `json:"streams,omitempty"`
	Created  []*Created           `json:"created,omitempty"`
	Faults   []string             `json:"faults,omitempty"` // fired: "open:ENOENT:/sim/x", ...

	Tasks        int    `json:"tasks"`
	SchedPoints  int    `json:"sched_points"`
	SchedChoices int    `json:"sched_choices"` // points with >= 2 runnable tasks
	SchedSwitch  int    `json:"sched_switch"`  // points where another task was chosen
	SchedHash    uint64 `json:"sched_hash"`
	BlockedSends int    `json:"blocked_sends"`
	BlockedRecvs int    `json:"blocked_recvs"`
	BlockedLocks int    `json:"blocked_locks"`
	ChanMaxLen   int    `json:"chan_max_len"`
	Abandoned    int    `json:"abandoned"` // tasks still alive when main returned
	// simulated time
	TimersSet     int   `json:"timers_set,omitempty"`
	TimersFired   int   `json:"timers_fired,omitempty"`
	ClockJumps    int   `json:"clock_jumps,omitempty"` // all tasks blocked: clock advanced to the next timer
	JumpedUs      int64 `json:"jumped_us,omitempty"`
	SimTimeUs     int64 `json:"sim_time_us"` // simulated time at exit (ticks + jumps), microseconds
	DelayedReads  int   `json:"delayed_reads,omitempty"`
	DelayedWrites int   `json:"delayed_writes,omitempty"`
	StmtPreempts  int   `json:"stmt_preempts,omitempty"`  // pre-emptions between two statements
	TimePreempts  int   `json:"time_preempts,omitempty"`  // a task computed 10 ms without a scheduling point
	FairnessPicks int   `json:"fairness_picks,omitempty"` // a task had waited too long and was chosen against the policy
	// memory traffic of the whole process at exit (runtime.MemStats): a second
	// deterministic cost measure besides the logical clock; it also sees work
	// done inside the standard library and dependencies (copies, re-rendering)
	AllocBytes uint64 `json:"alloc_bytes"`
	Mallocs    uint64 `json:"mallocs"`
	Note       string `json:"note,omitempty"`
}

// Exit codes used by the runtime itself (never by crd).
const (
	ExitDeadlock   = 97
	ExitStepBudget = 98
	ExitEOFSpin    = 96
	ExitSimTrouble = 95
)

// EOFSpinLimit is the number of reads issued after a stream has already
// reported EOF beyond which the reader is considered to be polled in a loop.
const EOFSpinLimit = 10000

// ---------------------------------------------------------------------------
// global state

var (
	step     Step
	active   bool // a scenario was loaded
	journal  Journal
	ticks    int64
	budget   int64 = 1 << 62
	exiting  bool
	siteRNG  = map[string]*rng{}
	siteStat = map[string]*SiteStat{}
)

func init() {
	p := os.Getenv("CRDSIM_STEP")
	if p == "" {
		step.MapPolicy = "sorted"
		step.SchedPolicy = "run-to-block"
		initSched()
		return
	}
	b, err := os.ReadFile(p)
	if err != nil {
		trouble("read step: " + err.Error())
	}
	if err := json.Unmarshal(b, &step); err != nil {
		trouble("parse step: " + err.Error())
	}
	active = true
	if step.MapPolicy == "" {
		step.MapPolicy = "sorted"
	}
	if step.SchedPolicy == "" {
		step.SchedPolicy = "run-to-block"
	}
	if step.StepBudget > 0 {
		budget = step.StepBudget
	}
	if step.AddrLimit > 0 {
		lim := syscall.Rlimit{Cur: step.AddrLimit, Max: step.AddrLimit}
		_ = syscall.Setrlimit(syscall.RLIMIT_AS, &lim)
	}
	initSched()
}

func trouble(msg string) {
	os.Stderr.WriteString("SIMRT-TROUBLE: " + msg + "\n")
	os.Exit(ExitSimTrouble)
}

// Run is the generated main of the instrumented binary.
func Run(mainFn func()) {
	mainFn()
	Exit(0)
}

// Exit replaces os.Exit.
func Exit(code int) {
	finish("exit", code)
}

func finish(verdict string, code int) {
	if exiting {
		os.Exit(code)
	}
	exiting = true
	journal.Verdict = verdict
	journal.ExitCode = code
	journal.Ticks = ticks
	journal.SimTimeUs = int64(simClock() / 1000)
	var ms runtime.MemStats
	runtime.ReadMemStats(&ms)
	journal.AllocBytes, journal.Mallocs = ms.TotalAlloc, ms.Mallocs
	journal.MapSites = siteStat
	for _, s := range allStreams {
		journal.Streams = append(journal.Streams, &s.stat)
	}
	journal.Created = created
	schedFinish()
	if active && step.JournalPath != "" {
		b, err := json.Marshal(&journal)
		if err == nil {
			err = os.WriteFile(step.JournalPath, b, 0o644)
		}
		if err != nil {
			trouble("write journal: " + err.Error())
		}
	}
	os.Exit(code)
}

// Tick is the logical clock: one call at every function entry and loop
// iteration of instrumented code.
func Tick() {
	ticks++
	if ticks > budget {
		finish("step-budget", ExitStepBudget)
	}
	if len(timerq) > 0 && timerq[0].at <= simClock() && !exiting {
		// time passes while a task computes: a deadline is reached, a ticker ticks
		fireDue()
	}
	if len(tasks) > 1 && ticks-lastSchedTick > preemptTicks && !exiting {
		// ten simulated milliseconds of computing without a scheduling point
		lastSchedTick = ticks
		journal.TimePreempts++
		yieldOthers()
	}
}

// ---------------------------------------------------------------------------
// choice streams

type rng struct{ s uint64 }

func (r *rng) next() uint64 {
	r.s += 0x9e3779b97f4a7c15
	z := r.s
	z = (z ^ (z >> 30)) * 0xbf58476d1ce4e5b9
	z = (z ^ (z >> 27)) * 0x94d049bb133111eb
	return z ^ (z >> 31)
}

func (r *rng) intn(n int) int {
	if n <= 1 {
		return 0
	}
	return int(r.next() % uint64(n))
}

func fnv(s string) uint64 {
	h := uint64(1469598103934665603)
	for i := 0; i < len(s); i++ {
		h ^= uint64(s[i])
		h *= 1099511628211
	}
	return h
}

func newStream(purpose string) *rng {
	r := &rng{s: step.Seed ^ fnv(purpose)}
	r.next()
	return r
}

func mixHash(h uint64, v uint64) uint64 {
	h ^= v + 0x9e3779b97f4a7c15 + (h << 6) + (h >> 2)
	return h
}

// ---------------------------------------------------------------------------
// map order

func sitePerm(site string, n int) []int {
	st := siteStat[site]
	if st == nil {
		st = &SiteStat{}
		siteStat[site] = st
	}
	st.Visits++
	if n > st.MaxLen {
		st.MaxLen = n
	}
	perm := make([]int, n)
	for i := range perm {
		perm[i] = i
	}
	if n < 2 {
		return perm
	}
	st.Nontrivial++
	r := siteRNG[site]
	if r == nil {
		r = newStream("map:" + site)
		siteRNG[site] = r
	}
	switch step.MapPolicy {
	case "reverse":
		for i, j := 0, n-1; i < j; i, j = i+1, j-1 {
			perm[i], perm[j] = perm[j], perm[i]
		}
	case "rotate":
		k := 1 + r.intn(n-1)
		for i := range perm {
			perm[i] = (i + k) % n
		}
	case "shuffle":
		for i := n - 1; i > 0; i-- {
			j := r.intn(i + 1)
			perm[i], perm[j] = perm[j], perm[i]
		}
	default: // sorted
	}
	ident := true
	h := st.Hash
	for i, p := range perm {
		if p != i {
			ident = false
		}
		h = mixHash(h, uint64(p))
	}
	st.Hash = mixHash(h, uint64(n))
	if !ident {
		st.NonIdent++
	}
	return perm
}

type keyed[K any] struct {
	k K
	s string
}

// orderedKeys returns the keys of m in the order decided for this visit of
// site: canonical (sorted) order, permuted by the scenario's policy.
func orderedKeys[M ~map[K]V, K comparable, V any](m M, site string) []K {
	ks := make([]keyed[K], 0, len(m))
	for k := range m {
		ks = append(ks, keyed[K]{k: k, s: canon(k)})
	}
	sort.Slice(ks, func(i, j int) bool { return ks[i].s < ks[j].s })
	perm := sitePerm(site, len(ks))
	out := make([]K, len(ks))
	for i, p := range perm {
		out[i] = ks[p].k
	}
	return out
}
