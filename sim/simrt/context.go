package simrt

import (
	"context"
	"os"
	"syscall"
	"time"
)

// ---------------------------------------------------------------------------
// Contexts with cancellation and deadlines. The values returned are real
// context.Context implementations (library code can carry them around and ask
// Err()/Value()), their deadlines run on the simulated clock, and their Done
// channel has a simulated twin: instrumented code that receives from
// ctx.Done() or selects on it is handed the twin (Twin), so the wait is a
// scheduling point like any other.

type simCtx struct {
	parent   context.Context
	done     chan struct{}
	twin     *Chan[struct{}]
	err      error
	cause    error
	deadline time.Time
	hasDL    bool
	children []*simCtx
	timer    *simTimer
}

type simCtxKeyT struct{}

var simCtxKey simCtxKeyT

var twinReg = map[any]any{}

func (c *simCtx) Deadline() (time.Time, bool) {
	if c.hasDL {
		return c.deadline, true
	}
	return c.parent.Deadline()
}
func (c *simCtx) Done() <-chan struct{} { return c.done }
func (c *simCtx) Err() error            { return c.err }
func (c *simCtx) Value(key any) any {
	if key == any(&simCtxKey) {
		return c
	}
	return c.parent.Value(key)
}

func (c *simCtx) cancel(err error) { c.cancelCause(err, nil) }

func (c *simCtx) cancelCause(err, cause error) {
	if c.err != nil {
		return
	}
	c.err = err
	if cause == nil {
		cause = err
	}
	c.cause = cause
	close(c.done)
	c.twin.closed = true
	wakeAll(&c.twin.recvq)
	wakeAll(&c.twin.sendq)
	if c.timer != nil {
		c.timer.stop()
	}
	for _, ch := range c.children {
		ch.cancelCause(err, cause)
	}
	c.children = nil
}

func newCtx(parent context.Context) *simCtx {
	if parent == nil {
		panic("cannot create context from nil parent")
	}
	c := &simCtx{parent: parent, done: make(chan struct{}), twin: MakeChan[struct{}](0)}
	twinReg[any((<-chan struct{})(c.done))] = c.twin
	if p, ok := parent.Value(&simCtxKey).(*simCtx); ok {
		if p.err != nil {
			c.cancel(p.err)
		} else {
			p.children = append(p.children, c)
		}
	} else if parent.Err() != nil {
		c.cancel(parent.Err())
	}
	return c
}

// WithCancel replaces context.WithCancel.
func WithCancel(parent context.Context) (context.Context, context.CancelFunc) {
	c := newCtx(parent)
	return c, func() { yieldPoint(); c.cancel(context.Canceled); yieldPoint() }
}

// WithDeadline replaces context.WithDeadline (deadline on the simulated clock).
func WithDeadline(parent context.Context, t time.Time) (context.Context, context.CancelFunc) {
	c := newCtx(parent)
	if cur, ok := parent.Deadline(); !ok || t.Before(cur) {
		c.deadline, c.hasDL = t, true
		d := t.Sub(Now())
		if d <= 0 {
			c.cancel(context.DeadlineExceeded)
		} else if c.err == nil {
			c.timer = addTimer(d, func() { c.cancel(context.DeadlineExceeded) })
		}
	}
	return c, func() { yieldPoint(); c.cancel(context.Canceled); yieldPoint() }
}

// WithTimeout replaces context.WithTimeout.
func WithTimeout(parent context.Context, d time.Duration) (context.Context, context.CancelFunc) {
	return WithDeadline(parent, Now().Add(d))
}

// Twin hands instrumented code the simulated twin of a channel that came out
// of a call into a package the simulator does not instrument (ctx.Done()).
func Twin[T any](c <-chan T) *Chan[T] {
	if c == nil {
		return nil // receiving from a nil channel blocks forever
	}
	if t, ok := twinReg[any(c)]; ok {
		return t.(*Chan[T])
	}
	trouble("a channel created outside the simulator reached instrumented code (only Done() channels of contexts made by context.WithCancel/WithTimeout/WithDeadline have a twin)")
	return nil
}

// ErrGroupWithContext replaces errgroup.WithContext.
func ErrGroupWithContext(ctx context.Context) (*ErrGroup, context.Context) {
	c := newCtx(ctx)
	return &ErrGroup{cancel: func(err error) { c.cancel(context.Canceled) }}, c
}

// WithCancelCause replaces context.WithCancelCause.
func WithCancelCause(parent context.Context) (context.Context, context.CancelCauseFunc) {
	c := newCtx(parent)
	return c, func(cause error) { yieldPoint(); c.cancelCause(context.Canceled, cause); yieldPoint() }
}

// WithTimeoutCause / WithDeadlineCause replace their context namesakes.
func WithDeadlineCause(parent context.Context, t time.Time, cause error) (context.Context, context.CancelFunc) {
	ctx, cancel := WithDeadline(parent, t)
	c := ctx.(*simCtx)
	if c.timer != nil {
		c.timer.stop()
		c.timer = addTimer(t.Sub(Now()), func() { c.cancelCause(context.DeadlineExceeded, cause) })
	}
	return ctx, cancel
}

func WithTimeoutCause(parent context.Context, d time.Duration, cause error) (context.Context, context.CancelFunc) {
	return WithDeadlineCause(parent, Now().Add(d), cause)
}

// Cause replaces context.Cause.
func Cause(ctx context.Context) error {
	if c, ok := ctx.Value(&simCtxKey).(*simCtx); ok {
		// the nearest simulated ancestor knows (it was cancelled with its parents)
		if c.err != nil {
			return c.cause
		}
		return nil
	}
	return context.Cause(ctx)
}

// NotifyContext replaces signal.NotifyContext. No signal is ever sent to a
// simulated process from outside. One signal a Go program sends to itself:
// SIGURG, with which the runtime pre-empts a goroutine that has been running
// for about 10 ms. A context subscribed to *all* signals (empty list) is
// therefore cancelled after 0.2..25.6 ms of simulated computing in half of the
// scenarios (seeded; the logical clock does not count the start-up work done
// inside libraries, so the real 10 ms may be reached after few ticks).
func NotifyContext(parent context.Context, sigs ...os.Signal) (context.Context, context.CancelFunc) {
	c := newCtx(parent)
	if len(sigs) == 0 && c.err == nil && schedRNG.intn(2) == 0 {
		// (whether the runtime sends the signal at all depends on the collector
		// and on what else runs: in half of the scenarios it does not)
		d := 200 * time.Microsecond << uint(schedRNG.intn(8)) // 0.2 .. 25.6 ms
		c.timer = addTimer(d, func() {
			journal.Faults = append(journal.Faults, "signal:SIGURG:runtime-preemption")
			c.cancel(context.Canceled)
		})
	}
	return c, func() { yieldPoint(); c.cancel(context.Canceled) }
}

// SignalNotify replaces signal.Notify (same reasoning as NotifyContext).
func SignalNotify(ch *Chan[os.Signal], sigs ...os.Signal) {
	if len(sigs) == 0 && ch != nil && schedRNG.intn(2) == 0 {
		d := 200 * time.Microsecond << uint(schedRNG.intn(8)) // 0.2 .. 25.6 ms
		addTimer(d, func() {
			journal.Faults = append(journal.Faults, "signal:SIGURG:runtime-preemption")
			if ch.canSend() && !ch.closed {
				ch.trySend(syscall.SIGURG)
			}
		})
	}
}

// SignalStop, SignalIgnore, SignalReset replace signal.Stop/Ignore/Reset.
func SignalStop(ch *Chan[os.Signal]) {}
func SignalIgnore(sigs ...os.Signal) {}
func SignalReset(sigs ...os.Signal)  {}
