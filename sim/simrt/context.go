package simrt

import (
	"context"
	"time"
)

// ---------------------------------------------------------------------------
// Contexts with cancellation and deadlines. The values returned are real
// context.Context implementations (library code can carry them around and ask
// Err()/Value()), their deadlines run on the simulated clock, and their Done
// channel has a simulated twin: instrumented code that receives from
// ctx.Done() or selects on it is handed the twin (Twin), so the wait is a
// scheduling point like any other.

type simCtx struct {
	parent   context.Context
	done     chan struct{}
	twin     *Chan[struct{}]
	err      error
	deadline time.Time
	hasDL    bool
	children []*simCtx
	timer    *simTimer
}

type simCtxKeyT struct{}

var simCtxKey simCtxKeyT

var twinReg = map[any]any{}

func (c *simCtx) Deadline() (time.Time, bool) {
	if c.hasDL {
		return c.deadline, true
	}
	return c.parent.Deadline()
}
func (c *simCtx) Done() <-chan struct{} { return c.done }
func (c *simCtx) Err() error            { return c.err }
func (c *simCtx) Value(key any) any {
	if key == any(&simCtxKey) {
		return c
	}
	return c.parent.Value(key)
}

func (c *simCtx) cancel(err error) {
	if c.err != nil {
		return
	}
	c.err = err
	close(c.done)
	c.twin.closed = true
	wakeAll(&c.twin.recvq)
	wakeAll(&c.twin.sendq)
	if c.timer != nil {
		c.timer.stop()
	}
	for _, ch := range c.children {
		ch.cancel(err)
	}
	c.children = nil
}

func newCtx(parent context.Context) *simCtx {
	if parent == nil {
		panic("cannot create context from nil parent")
	}
	c := &simCtx{parent: parent, done: make(chan struct{}), twin: MakeChan[struct{}](0)}
	twinReg[any((<-chan struct{})(c.done))] = c.twin
	if p, ok := parent.Value(&simCtxKey).(*simCtx); ok {
		if p.err != nil {
			c.cancel(p.err)
		} else {
			p.children = append(p.children, c)
		}
	} else if parent.Err() != nil {
		c.cancel(parent.Err())
	}
	return c
}

// WithCancel replaces context.WithCancel.
func WithCancel(parent context.Context) (context.Context, context.CancelFunc) {
	c := newCtx(parent)
	return c, func() { yieldPoint(); c.cancel(context.Canceled); yieldPoint() }
}

// WithDeadline replaces context.WithDeadline (deadline on the simulated clock).
func WithDeadline(parent context.Context, t time.Time) (context.Context, context.CancelFunc) {
	c := newCtx(parent)
	if cur, ok := parent.Deadline(); !ok || t.Before(cur) {
		c.deadline, c.hasDL = t, true
		d := t.Sub(Now())
		if d <= 0 {
			c.cancel(context.DeadlineExceeded)
		} else if c.err == nil {
			c.timer = addTimer(d, func() { c.cancel(context.DeadlineExceeded) })
		}
	}
	return c, func() { yieldPoint(); c.cancel(context.Canceled); yieldPoint() }
}

// WithTimeout replaces context.WithTimeout.
func WithTimeout(parent context.Context, d time.Duration) (context.Context, context.CancelFunc) {
	return WithDeadline(parent, Now().Add(d))
}

// Twin hands instrumented code the simulated twin of a channel that came out
// of a call into a package the simulator does not instrument (ctx.Done()).
func Twin[T any](c <-chan T) *Chan[T] {
	if c == nil {
		return nil // receiving from a nil channel blocks forever
	}
	if t, ok := twinReg[any(c)]; ok {
		return t.(*Chan[T])
	}
	trouble("a channel created outside the simulator reached instrumented code (only Done() channels of contexts made by context.WithCancel/WithTimeout/WithDeadline have a twin)")
	return nil
}

// ErrGroupWithContext replaces errgroup.WithContext.
func ErrGroupWithContext(ctx context.Context) (*ErrGroup, context.Context) {
	c := newCtx(ctx)
	return &ErrGroup{cancel: func(err error) { c.cancel(context.Canceled) }}, c
}
