package rewrite

import (
	"encoding/json"
	"os"
	"os/exec"
	"path/filepath"
	"strings"
	"testing"

	"verif/sim/simrt"
)

func goEnv() []string {
	return append(os.Environ(), "GOFLAGS=-mod=mod", "GOPROXY=off", "GOSUMDB=off", "GOTOOLCHAIN=local", "CGO_ENABLED=0")
}

func copyDir(t *testing.T, src, dst string) {
	filepath.Walk(src, func(p string, info os.FileInfo, err error) error {
		rel, _ := filepath.Rel(src, p)
		if info.IsDir() {
			return os.MkdirAll(filepath.Join(dst, rel), 0o755)
		}
		b, _ := os.ReadFile(p)
		return os.WriteFile(filepath.Join(dst, rel), b, 0o644)
	})
}

// The instrumented concurrent program must (1) build, (2) give the same
// output for the same scenario, (3) give different interleavings and map
// orders for different scenarios, (4) keep Go semantics (all items present).
func TestConcurrentProgram(t *testing.T) {
	dir := t.TempDir()
	copyDir(t, "testdata/conc", dir)
	rep, err := Instrument(dir, "../simrt", goEnv())
	if err != nil {
		t.Fatalf("instrument: %v (%v)", err, rep)
	}
	bin := filepath.Join(dir, "prog")
	cmd := exec.Command(GoCmd, "build", "-o", bin, "./cmd")
	cmd.Dir = dir
	cmd.Env = goEnv()
	if out, err := cmd.CombinedOutput(); err != nil {
		src, _ := os.ReadFile(filepath.Join(dir, "cmd/main.go"))
		t.Fatalf("build: %v\n%s\n%s", err, out, src)
	}
	preempt := 0
	run := func(seed uint64, mp, sp string, args ...string) (string, int) {
		st := simrt.Step{Seed: seed, PreemptEvery: preempt, MapPolicy: mp, SchedPolicy: sp, JournalPath: filepath.Join(dir, "j.json"), OutDir: dir, StepBudget: 2_000_000}
		b, _ := json.Marshal(st)
		sp2 := filepath.Join(dir, "step.json")
		os.WriteFile(sp2, b, 0o644)
		c := exec.Command(bin, args...)
		c.Env = []string{"CRDSIM_STEP=" + sp2}
		out, err := c.CombinedOutput()
		code := 0
		if ee, ok := err.(*exec.ExitError); ok {
			code = ee.ExitCode()
		}
		return string(out), code
	}
	base, code := run(1, "sorted", "run-to-block")
	if code != 0 {
		t.Fatalf("exit %d: %s", code, base)
	}
	if !strings.Contains(base, "select-sum 55 5") || !strings.Contains(base, "got hello") {
		t.Fatalf("select semantics broken: %s", base)
	}
	if !strings.Contains(base, "abc[a b c]") || !strings.Contains(base, "once") || !strings.Contains(base, "0 false 0 0") || !strings.Contains(base, "1 2 x") || !strings.Contains(base, "true true") {
		t.Fatalf("unexpected output: %s", base)
	}
	for _, want := range []string{"timeout-race 1s ready", "timeout-race 5s timeout", "stop true false", "reset-fired-after 2s", "beats 4", "afterfunc [one two]", "elapsed>= true true",
		"ctx-fast <nil>", "ctx-slow context deadline exceeded", "ctx-cancel context canceled context canceled context canceled", "ctx-done true", "cond-total 55"} {
		if !strings.Contains(base, want) {
			t.Fatalf("simulated time: %q missing in: %s", want, base)
		}
	}
	seen := map[string]bool{}
	for seed := uint64(1); seed <= 40; seed++ {
		a, _ := run(seed, "shuffle", "random")
		b, _ := run(seed, "shuffle", "random")
		if a != b {
			t.Fatalf("seed %d not deterministic:\n%s\n%s", seed, a, b)
		}
		seen[a] = true
		if !strings.Contains(a, "select-sum 55 5") || !strings.Contains(a, "got hello") {
			t.Fatalf("seed %d: select semantics broken: %s", seed, a)
		}
		for _, want := range []string{"timeout-race 1s ready", "timeout-race 5s timeout", "reset-fired-after 2s", "beats 4", "afterfunc [one two]", "elapsed>= true true",
			"ctx-fast <nil>", "ctx-slow context deadline exceeded", "ctx-cancel context canceled context canceled context canceled", "ctx-done true", "cond-total 55"} {
			if !strings.Contains(a, want) {
				t.Fatalf("seed %d: simulated time: %q missing in: %s", seed, want, a)
			}
		}
		for _, want := range []string{"0", "1", "2", "3", "10", "20"} {
			if !strings.Contains(a, want) {
				t.Fatalf("seed %d lost an item: %s", seed, a)
			}
		}
	}
	// statement-level pre-emption: off, the unsynchronised counter is exact under
	// every policy; on, some seed loses updates, and the same seed always does
	lost := 0
	for seed := uint64(1); seed <= 20; seed++ {
		preempt = 0
		if a, _ := run(seed, "sorted", "random"); !strings.Contains(a, "racy exact") {
			t.Fatalf("seed %d: pre-emption between statements without being asked for: %s", seed, a)
		}
		preempt = 3
		a, _ := run(seed, "sorted", "random")
		b, _ := run(seed, "sorted", "random")
		if a != b {
			t.Fatalf("seed %d not deterministic under statement pre-emption", seed)
		}
		if strings.Contains(a, "racy lost-updates") {
			lost++
		}
		if !strings.Contains(a, "select-sum 55 5") || !strings.Contains(a, "beats 4") {
			t.Fatalf("seed %d: semantics broken under statement pre-emption: %s", seed, a)
		}
	}
	preempt = 0
	if lost == 0 {
		t.Fatalf("statement-level pre-emption never exposed the lost update")
	}
	if len(seen) < 10 {
		t.Fatalf("only %d distinct executions over 40 seeds", len(seen))
	}
	if _, code := run(1, "sorted", "run-to-block", "x"); code != 3 {
		t.Fatalf("os.Exit code lost: %d", code)
	}
	var j simrt.Journal
	jb, _ := os.ReadFile(filepath.Join(dir, "j.json"))
	if err := json.Unmarshal(jb, &j); err != nil || j.ExitCode != 3 || j.Tasks < 6 {
		t.Fatalf("journal: %v %s", err, jb)
	}
}
