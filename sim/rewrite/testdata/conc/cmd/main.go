package main

import (
	"context"
	"fmt"
	"maps"
	"os"
	"runtime"
	"slices"
	"sync"
	"time"
)

type box struct {
	mu  sync.Mutex
	out []int
	c   chan int
}

func worker(b *box, i int, wg *sync.WaitGroup) {
	defer wg.Done()
	b.mu.Lock()
	b.out = append(b.out, i)
	b.mu.Unlock()
}

func main() {
	var wg sync.WaitGroup
	b := &box{}
	for i := 0; i < 4; i++ {
		wg.Add(1)
		go worker(b, i, &wg)
	}
	wg.Wait()
	ch := make(chan int)
	done := make(chan struct{})
	go func() {
		for v := range ch {
			b.out = append(b.out, v*10)
		}
		close(done)
	}()
	for i := 0; i < 3; i++ {
		ch <- i
	}
	close(ch)
	<-done
	m := map[string]int{"a": 1, "b": 2, "c": 3}
L:
	for k, v := range m {
		if v == 99 {
			break L
		}
		fmt.Print(k)
	}
	fmt.Println(slices.Collect(maps.Keys(m)))
	fmt.Println(b.out)
	var once sync.Once
	once.Do(func() { fmt.Println("once") })
	v, ok := <-ch
	fmt.Println(v, ok, len(ch), cap(ch))
	buf := make(chan string, 2)
	buf <- "x"
	fmt.Println(len(buf), cap(buf), <-buf)
	var mu sync.RWMutex
	mu.RLock()
	mu.RUnlock()
	f, err := os.Open("/sim/nothing")
	fmt.Println(f == nil, err != nil)
	timers()
	racy()
	contexts()
	conds()
	if len(os.Args) > 1 {
		os.Exit(3)
	}
}

type hb struct {
	t    *time.Ticker
	stop chan struct{}
}

// simulated time: nothing here may take real time, and the order of events
// must follow the simulated clock.
func timers() {
	start := time.Now()
	// a timeout that loses against a fast worker and wins against a slow one
	for _, work := range []time.Duration{time.Second, 5 * time.Second} {
		ready := make(chan string)
		go func() {
			time.Sleep(work)
			ready <- "ready"
		}()
		select {
		case v := <-ready:
			fmt.Println("timeout-race", work, v)
		case <-time.After(3 * time.Second):
			fmt.Println("timeout-race", work, "timeout")
		}
	}
	// timer stop / reset
	tm := time.NewTimer(10 * time.Second)
	fmt.Println("stop", tm.Stop(), tm.Stop())
	tm.Reset(2 * time.Second)
	t0 := time.Now()
	<-tm.C
	fmt.Println("reset-fired-after", time.Since(t0).Round(time.Second))
	// ticker with a heartbeat goroutine
	h := &hb{t: time.NewTicker(500 * time.Millisecond), stop: make(chan struct{})}
	beats := 0
	fin := make(chan struct{})
	go func() {
		defer close(fin)
		for {
			select {
			case <-h.t.C:
				beats++
			case <-h.stop:
				return
			}
		}
	}()
	time.Sleep(2250 * time.Millisecond)
	h.t.Stop()
	close(h.stop)
	<-fin
	fmt.Println("beats", beats)
	// AfterFunc
	var mu sync.Mutex
	fired := []string{}
	time.AfterFunc(2*time.Second, func() { mu.Lock(); fired = append(fired, "two"); mu.Unlock() })
	time.AfterFunc(1*time.Second, func() { mu.Lock(); fired = append(fired, "one"); mu.Unlock() })
	cancelled := time.AfterFunc(1500*time.Millisecond, func() { mu.Lock(); fired = append(fired, "never"); mu.Unlock() })
	cancelled.Stop()
	time.Sleep(3 * time.Second)
	mu.Lock()
	fmt.Println("afterfunc", fired)
	mu.Unlock()
	for range 2 {
		<-time.Tick(time.Second)
	}
	fmt.Println("elapsed>=", time.Since(start) >= 13*time.Second, time.Since(start) < 14*time.Second)
}

func runtimeGosched() { runtime.Gosched() }

func init() {
	// select: worker pool with a quit channel, default case, buffered results
	jobs := make(chan int, 8)
	results := make(chan int, 8)
	quit := make(chan struct{})
	var wg sync.WaitGroup
	for w := 0; w < 3; w++ {
		wg.Add(1)
		go func(id int) {
			defer wg.Done()
			for {
				select {
				case j, ok := <-jobs:
					if !ok {
						return
					}
					results <- j * j
				case <-quit:
					return
				}
			}
		}(w)
	}
	for i := 1; i <= 5; i++ {
		jobs <- i
	}
	close(jobs)
	wg.Wait()
	close(quit)
	sum := 0
	order := []int{}
	for {
		var v int
		got := false
		select {
		case v = <-results:
			got = true
		default:
		}
		if !got {
			break
		}
		sum += v
		order = append(order, v)
	}
	fmt.Println("select-sum", sum, len(order))
	fmt.Println("select-order", order)
	// unbuffered hand-off through select-send to a plain receiver
	u := make(chan string)
	fin := make(chan bool)
	go func() { fmt.Println("got", <-u); fin <- true }()
	sent := false
	for !sent {
		select {
		case u <- "hello":
			sent = true
		default:
			runtimeGosched()
		}
	}
	<-fin
}

// an unsynchronised read-modify-write: only statement-level pre-emption loses updates
func racy() {
	x := 0
	var wg sync.WaitGroup
	for g := 0; g < 2; g++ {
		wg.Add(1)
		go func() {
			defer wg.Done()
			for i := 0; i < 100; i++ {
				t := x
				t++
				x = t
			}
		}()
	}
	wg.Wait()
	if x == 200 {
		fmt.Println("racy exact")
	} else {
		fmt.Println("racy lost-updates")
	}
}

func slowWork(ctx context.Context, d time.Duration) error {
	t := time.NewTimer(d)
	defer t.Stop()
	select {
	case <-t.C:
		return nil
	case <-ctx.Done():
		return ctx.Err()
	}
}

// contexts: deadlines on the simulated clock, cancellation reaching children
func contexts() {
	ctx, cancel := context.WithTimeout(context.Background(), 3*time.Second)
	defer cancel()
	fmt.Println("ctx-fast", slowWork(ctx, time.Second))
	fmt.Println("ctx-slow", slowWork(ctx, 10*time.Second))
	parent, stop := context.WithCancel(context.Background())
	child, stop2 := context.WithTimeout(parent, time.Hour)
	defer stop2()
	res := make(chan error)
	go func() { res <- slowWork(child, 30*time.Minute) }()
	go func() { time.Sleep(time.Minute); stop() }()
	fmt.Println("ctx-cancel", <-res, child.Err(), parent.Err())
	done := child.Done()
	<-done
	_, has := child.Deadline()
	fmt.Println("ctx-done", has)
}

// condition variable: a bounded queue with one producer and two consumers
func conds() {
	var mu sync.Mutex
	notEmpty := sync.NewCond(&mu)
	var q []int
	closed := false
	total := 0
	var wg sync.WaitGroup
	for c := 0; c < 2; c++ {
		wg.Add(1)
		go func() {
			defer wg.Done()
			for {
				mu.Lock()
				for len(q) == 0 && !closed {
					notEmpty.Wait()
				}
				if len(q) == 0 && closed {
					mu.Unlock()
					return
				}
				v := q[0]
				q = q[1:]
				total += v
				mu.Unlock()
			}
		}()
	}
	for i := 1; i <= 10; i++ {
		mu.Lock()
		q = append(q, i)
		mu.Unlock()
		notEmpty.Signal()
	}
	mu.Lock()
	closed = true
	mu.Unlock()
	notEmpty.Broadcast()
	wg.Wait()
	fmt.Println("cond-total", total)
}
