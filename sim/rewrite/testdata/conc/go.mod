module github.com/berquerant/crd

go 1.24.0
