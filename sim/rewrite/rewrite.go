// Package rewrite instruments a scratch copy of berquerant/crd so that every
// source of nondeterminism and every fault the properties depend on goes
// through package simrt. It works on whatever the tree currently contains:
// edits are driven by go/types information, not by file names or line
// numbers, so code added or changed under test is instrumented the same way.
//
// Edits are byte-offset replacements on the original source (the technique of
// `go tool cover`): comments, //go:embed and //go:generate lines are untouched.
package rewrite

import (
	"bytes"
	"encoding/json"
	"fmt"
	"go/ast"
	"go/importer"
	"go/parser"
	"go/token"
	"go/types"
	"io"
	"os"
	"os/exec"
	"path/filepath"
	"sort"
	"strings"
)

const SimrtImportPath = "github.com/berquerant/crd/simrt"

// Site is one instrumented map-iteration site.
type Site struct {
	ID   string `json:"id"`
	Pos  string `json:"pos"`  // file:line relative to the module root
	Kind string `json:"kind"` // range|maps.Keys|maps.Values|maps.All
	Type string `json:"type"`
}

type Report struct {
	Sites       []Site         `json:"sites"`
	Counts      map[string]int `json:"counts"`
	Warnings    []string       `json:"warnings,omitempty"`
	Unsupported []string       `json:"unsupported,omitempty"`
	Files       int            `json:"files"`
}

type listPkg struct {
	ImportPath string
	Dir        string
	Export     string
	Standard   bool
	GoFiles    []string
	Name       string
	Error      *struct{ Err string }
}

type edit struct {
	pos, end int
	text     string
	depth    int
	suffix   bool // closing text belonging to an enclosing construct
	seq      int
}

type fileCtx struct {
	fset             *token.FileSet
	file             *ast.File
	tf               *token.File
	info             *types.Info
	rel              string
	edits            []edit
	seq              int
	rep              *Report
	src              []byte
	pkgUse           map[string][2]int // import local name -> [total uses, rewritten uses]
	isMain           bool
	hasMain          bool
	handledChanTypes map[*ast.ChanType]bool
	needSimrt        bool
	skip             [][2]token.Pos // source ranges already replaced as a whole (select comm clauses)
	localPkgs        map[string]bool
}

// GoCmd is the go command used for `go list` (must be the toolchain the
// binaries are built with).
var GoCmd = "go1.26.8"

// Instrument rewrites the module rooted at dir in place. simrtSrc is the
// directory holding the simrt sources to copy in.
func Instrument(dir, simrtSrc string, env []string) (*Report, error) {
	rep := &Report{Counts: map[string]int{}}

	cmd := exec.Command(GoCmd, "list", "-e", "-export", "-deps", "-json=ImportPath,Dir,Export,Standard,GoFiles,Name,Error", "./...")
	cmd.Dir = dir
	cmd.Env = env
	var stderr bytes.Buffer
	cmd.Stderr = &stderr
	out, err := cmd.Output()
	if err != nil {
		return nil, fmt.Errorf("go list: %v\n%s", err, stderr.String())
	}
	var pkgs []*listPkg
	dec := json.NewDecoder(bytes.NewReader(out))
	for {
		var p listPkg
		if err := dec.Decode(&p); err == io.EOF {
			break
		} else if err != nil {
			return nil, fmt.Errorf("go list json: %v", err)
		}
		pkgs = append(pkgs, &p)
	}
	exports := map[string]string{}
	for _, p := range pkgs {
		if p.Export != "" {
			exports[p.ImportPath] = p.Export
		}
	}
	fset := token.NewFileSet()
	local := map[string]*types.Package{}
	gcImp := importer.ForCompiler(fset, "gc", func(path string) (io.ReadCloser, error) {
		e, ok := exports[path]
		if !ok {
			return nil, fmt.Errorf("no export data for %s", path)
		}
		return os.Open(e)
	})
	imp := importerFunc(func(path string) (*types.Package, error) {
		if p, ok := local[path]; ok {
			return p, nil
		}
		return gcImp.Import(path)
	})

	absDir, _ := filepath.Abs(dir)
	localPkgs := map[string]bool{}
	for _, p := range pkgs {
		if !p.Standard && strings.HasPrefix(p.Dir, absDir) {
			localPkgs[p.ImportPath] = true
		}
	}
	for _, p := range pkgs {
		if p.Standard || !strings.HasPrefix(p.Dir, absDir) || len(p.GoFiles) == 0 {
			continue
		}
		if p.ImportPath == SimrtImportPath {
			continue
		}
		if p.Error != nil {
			return nil, fmt.Errorf("package %s: %s", p.ImportPath, p.Error.Err)
		}
		var files []*ast.File
		var names []string
		gofiles := append([]string(nil), p.GoFiles...)
		sort.Strings(gofiles)
		for _, f := range gofiles {
			full := filepath.Join(p.Dir, f)
			af, err := parser.ParseFile(fset, full, nil, parser.ParseComments|parser.SkipObjectResolution)
			if err != nil {
				return nil, fmt.Errorf("parse %s: %v", full, err)
			}
			files = append(files, af)
			names = append(names, full)
		}
		info := &types.Info{
			Types:      map[ast.Expr]types.TypeAndValue{},
			Uses:       map[*ast.Ident]types.Object{},
			Defs:       map[*ast.Ident]types.Object{},
			Selections: map[*ast.SelectorExpr]*types.Selection{},
		}
		conf := types.Config{Importer: imp, GoVersion: ""}
		tp, err := conf.Check(p.ImportPath, fset, files, info)
		if err != nil {
			return nil, fmt.Errorf("type-check %s: %v", p.ImportPath, err)
		}
		local[p.ImportPath] = tp
		for i, af := range files {
			rel, _ := filepath.Rel(absDir, names[i])
			fc := &fileCtx{
				fset: fset, file: af, tf: fset.File(af.Pos()), info: info, rel: rel, rep: rep,
				pkgUse: map[string][2]int{}, isMain: p.Name == "main",
				handledChanTypes: map[*ast.ChanType]bool{}, localPkgs: localPkgs,
			}
			src, err := os.ReadFile(names[i])
			if err != nil {
				return nil, err
			}
			outSrc := fc.rewrite(src)
			if err := os.WriteFile(names[i], outSrc, 0o644); err != nil {
				return nil, err
			}
			rep.Files++
		}
	}
	if len(rep.Unsupported) > 0 {
		return rep, fmt.Errorf("instrumenter: unsupported construct(s): %s", strings.Join(rep.Unsupported, "; "))
	}

	// copy simrt in
	dst := filepath.Join(dir, "simrt")
	if err := os.MkdirAll(dst, 0o755); err != nil {
		return nil, err
	}
	ents, err := os.ReadDir(simrtSrc)
	if err != nil {
		return nil, err
	}
	for _, e := range ents {
		if e.IsDir() || !strings.HasSuffix(e.Name(), ".go") || strings.HasSuffix(e.Name(), "_test.go") {
			continue
		}
		b, err := os.ReadFile(filepath.Join(simrtSrc, e.Name()))
		if err != nil {
			return nil, err
		}
		if err := os.WriteFile(filepath.Join(dst, e.Name()), b, 0o644); err != nil {
			return nil, err
		}
	}
	sort.Slice(rep.Sites, func(i, j int) bool { return rep.Sites[i].ID < rep.Sites[j].ID })
	return rep, nil
}

type importerFunc func(path string) (*types.Package, error)

func (f importerFunc) Import(path string) (*types.Package, error) { return f(path) }

// ---------------------------------------------------------------------------

func (fc *fileCtx) off(p token.Pos) int { return fc.tf.Offset(p) }

func (fc *fileCtx) line(p token.Pos) int { return fc.tf.Line(p) }

func (fc *fileCtx) replace(pos, end token.Pos, text string, depth int, suffix bool) {
	fc.seq++
	fc.edits = append(fc.edits, edit{pos: fc.off(pos), end: fc.off(end), text: text, depth: depth, suffix: suffix, seq: fc.seq})
	fc.needSimrt = true
}

func (fc *fileCtx) insertBefore(pos token.Pos, text string, depth int) {
	fc.replace(pos, pos, text, depth, false)
}

func (fc *fileCtx) insertAfter(pos token.Pos, text string, depth int) {
	fc.replace(pos, pos, text, depth, true)
}

func (fc *fileCtx) unsupported(pos token.Pos, what string) {
	fc.rep.Unsupported = append(fc.rep.Unsupported, fmt.Sprintf("%s:%d: %s", fc.rel, fc.line(pos), what))
}

func (fc *fileCtx) warn(pos token.Pos, what string) {
	fc.rep.Warnings = append(fc.rep.Warnings, fmt.Sprintf("%s:%d: %s", fc.rel, fc.line(pos), what))
}

func (fc *fileCtx) count(k string) { fc.rep.Counts[k]++ }

// pkgOf reports the imported package path and local name if e is an
// identifier denoting an imported package.
func (fc *fileCtx) pkgOf(e ast.Expr) (string, string, bool) {
	id, ok := e.(*ast.Ident)
	if !ok {
		return "", "", false
	}
	pn, ok := fc.info.Uses[id].(*types.PkgName)
	if !ok {
		return "", "", false
	}
	return pn.Imported().Path(), id.Name, true
}

func (fc *fileCtx) typeOf(e ast.Expr) types.Type {
	if tv, ok := fc.info.Types[e]; ok {
		return tv.Type
	}
	if id, ok := e.(*ast.Ident); ok {
		if o := fc.info.Uses[id]; o != nil {
			return o.Type()
		}
		if o := fc.info.Defs[id]; o != nil {
			return o.Type()
		}
	}
	return nil
}

func under(t types.Type) types.Type {
	if t == nil {
		return nil
	}
	if tp, ok := types.Unalias(t).(*types.TypeParam); ok {
		// core type of a type parameter, when all terms share one
		iface, _ := tp.Constraint().Underlying().(*types.Interface)
		if iface == nil {
			return nil
		}
		var core types.Type
		for i := 0; i < iface.NumEmbeddeds(); i++ {
			switch et := iface.EmbeddedType(i).(type) {
			case *types.Union:
				for j := 0; j < et.Len(); j++ {
					u := et.Term(j).Type().Underlying()
					if core == nil {
						core = u
					} else if !types.Identical(core, u) {
						return nil
					}
				}
			default:
				u := et.Underlying()
				if _, isIface := u.(*types.Interface); isIface {
					continue
				}
				if core == nil {
					core = u
				} else if !types.Identical(core, u) {
					return nil
				}
			}
		}
		return core
	}
	return t.Underlying()
}

// keyIsStable reports whether a canonical order of keys of type t can be
// computed without looking at addresses.
func keyIsStable(t types.Type) bool {
	switch u := t.Underlying().(type) {
	case *types.Basic:
		return u.Kind() != types.UnsafePointer
	case *types.Struct:
		for i := 0; i < u.NumFields(); i++ {
			if !keyIsStable(u.Field(i).Type()) {
				return false
			}
		}
		return true
	case *types.Array:
		return keyIsStable(u.Elem())
	case *types.TypeParam:
		return true // decided at run time by reflection on the value
	case *types.Interface:
		return true // dynamic value decides; pointers inside fall back to %#v
	default:
		return false // pointer, chan
	}
}

func (fc *fileCtx) siteID(pos token.Pos, kind string, t types.Type) string {
	id := fmt.Sprintf("%s:%d:%d", fc.rel, fc.line(pos), fc.tf.Position(pos).Column)
	ts := ""
	if t != nil {
		ts = types.TypeString(t, func(p *types.Package) string { return p.Name() })
	}
	fc.rep.Sites = append(fc.rep.Sites, Site{ID: id, Pos: fmt.Sprintf("%s:%d", fc.rel, fc.line(pos)), Kind: kind, Type: ts})
	return id
}

func (fc *fileCtx) rewrite(src []byte) []byte {
	fc.src = src
	// count uses of imported packages
	ast.Inspect(fc.file, func(n ast.Node) bool {
		if se, ok := n.(*ast.SelectorExpr); ok {
			if _, name, ok := fc.pkgOf(se.X); ok {
				u := fc.pkgUse[name]
				u[0]++
				fc.pkgUse[name] = u
			}
		}
		return true
	})

	fc.walk(fc.file, 0)

	if fc.isMain && fc.hasMain {
		// generated main
		src = append(src, []byte("\nfunc main() { simrt.Run(crdMain) }\n")...)
		fc.needSimrt = true
	}
	if !fc.needSimrt && len(fc.edits) == 0 {
		return src
	}
	// imports whose every use was rewritten become blank imports
	for _, is := range fc.file.Imports {
		path := strings.Trim(is.Path.Value, `"`)
		name := ""
		if is.Name != nil {
			name = is.Name.Name
		} else {
			name = filepath.Base(path)
			if path == "math/rand/v2" {
				name = "rand"
			}
		}
		if name == "_" || name == "." {
			continue
		}
		u, ok := fc.pkgUse[name]
		if !ok {
			continue
		}
		if u[0] > 0 && u[0] == u[1] {
			if is.Name != nil {
				fc.replace(is.Name.Pos(), is.Name.End(), "_", 0, false)
			} else {
				fc.insertBefore(is.Path.Pos(), "_ ", 0)
			}
		}
	}
	// import of simrt on the package-clause line (keeps line numbers)
	fc.insertAfter(fc.file.Name.End(), "; import simrt \""+SimrtImportPath+"\"", 0)

	return applyEdits(src, fc.edits)
}

func applyEdits(src []byte, edits []edit) []byte {
	sort.SliceStable(edits, func(i, j int) bool {
		a, b := edits[i], edits[j]
		if a.pos != b.pos {
			return a.pos < b.pos
		}
		// at one offset: closings first (inner before outer), then openings
		// (outer before inner); pure insertions before replacements
		if a.suffix != b.suffix {
			return a.suffix
		}
		aIns, bIns := a.pos == a.end, b.pos == b.end
		if aIns != bIns {
			return aIns
		}
		if a.suffix {
			if a.depth != b.depth {
				return a.depth > b.depth
			}
		} else {
			if a.depth != b.depth {
				return a.depth < b.depth
			}
		}
		return a.seq < b.seq
	})
	var out bytes.Buffer
	cur := 0
	for _, e := range edits {
		if e.pos < cur {
			panic(fmt.Sprintf("rewrite: overlapping edits at offset %d (%q)", e.pos, e.text))
		}
		out.Write(src[cur:e.pos])
		out.WriteString(e.text)
		cur = e.end
	}
	out.Write(src[cur:])
	return out.Bytes()
}

func (fc *fileCtx) markRewritten(localName string) {
	u := fc.pkgUse[localName]
	u[1]++
	fc.pkgUse[localName] = u
}

// walk visits n (pre-order) with its depth.
func (fc *fileCtx) walk(root ast.Node, depth int) {
	var stack []ast.Node
	ast.Inspect(root, func(n ast.Node) bool {
		if n == nil {
			stack = stack[:len(stack)-1]
			return true
		}
		d := depth + len(stack)
		var parent ast.Node
		if len(stack) > 0 {
			parent = stack[len(stack)-1]
		}
		stack = append(stack, n)
		fc.visit(n, parent, d)
		return true
	})
}

var osFuncs = map[string]string{
	"Open": "Open", "Create": "Create", "OpenFile": "OpenFile", "ReadFile": "ReadFile",
	"WriteFile": "WriteFile", "Exit": "Exit", "Stat": "Stat", "File": "File",
	"CreateTemp": "CreateTemp", "Rename": "Rename", "Remove": "Remove", "TempDir": "TempDir",
	"Getpid": "Getpid", "Getppid": "Getppid", "Hostname": "Hostname",
	"SameFile": "SameFile", "ReadDir": "ReadDir", "Lstat": "Stat",
	"UserCacheDir": "UserCacheDir", "UserConfigDir": "UserConfigDir", "UserHomeDir": "UserHomeDir", "Getwd": "Getwd",
	"MkdirAll": "MkdirAll", "Mkdir": "Mkdir",
}

var randFuncs = map[string]string{
	"Intn": "RandIntn", "Int": "RandInt", "Int63": "RandInt63", "Int31": "RandInt31", "Uint32": "RandUint32", "Uint64": "RandUint64",
	"Float64": "RandFloat64", "Int63n": "RandInt63n", "Int31n": "RandInt31n", "Perm": "RandPerm", "Shuffle": "RandShuffle", "Seed": "RandSeed",
	"IntN": "RandIntn", "Int64": "RandInt63", "Int64N": "RandInt63n", "N": "",
}

var timeSeams = map[string]bool{"Now": true, "Since": true, "Sleep": true, "After": true, "Tick": true, "NewTimer": true, "NewTicker": true, "AfterFunc": true, "Timer": true, "Ticker": true}

var syncTypes = map[string]string{
	"Mutex": "Mutex", "RWMutex": "RWMutex", "WaitGroup": "WaitGroup", "Once": "Once", "Map": "SyncMap", "Pool": "Pool",
}

func (fc *fileCtx) skipped(n ast.Node) bool {
	for _, r := range fc.skip {
		if n.Pos() >= r[0] && n.End() <= r[1] {
			return true
		}
	}
	return false
}

func (fc *fileCtx) visit(n ast.Node, parent ast.Node, d int) {
	if fc.skipped(n) {
		return
	}
	// statement-level pre-emption points (taken only when a scenario asks for
	// them and several tasks are alive): unsynchronised code of two goroutines
	// interleaves between any two statements
	var stmts []ast.Stmt
	switch b := n.(type) {
	case *ast.BlockStmt:
		switch pp := parent.(type) {
		case *ast.SwitchStmt:
			if pp.Body == b {
				break
			}
			stmts = b.List
		case *ast.TypeSwitchStmt:
			if pp.Body == b {
				break
			}
			stmts = b.List
		case *ast.SelectStmt:
		default:
			stmts = b.List
		}
	case *ast.CaseClause:
		stmts = b.Body
	case *ast.CommClause:
		stmts = b.Body
	}
	for _, st := range stmts {
		if _, empty := st.(*ast.EmptyStmt); empty {
			continue
		}
		fc.insertBefore(st.Pos(), "simrt.P(); ", d)
		fc.count("preempt_point")
	}
	switch n := n.(type) {
	case *ast.FuncDecl:
		if n.Body != nil {
			fc.insertAfter(n.Body.Lbrace+1, " simrt.Tick();", d)
			fc.count("tick")
		}
		if fc.isMain && n.Recv == nil && n.Name.Name == "main" {
			fc.replace(n.Name.Pos(), n.Name.End(), "crdMain", d, false)
			fc.hasMain = true
		}
	case *ast.FuncLit:
		fc.insertAfter(n.Body.Lbrace+1, " simrt.Tick();", d)
		fc.count("tick")
	case *ast.ForStmt:
		fc.insertAfter(n.Body.Lbrace+1, " simrt.Tick();", d)
		fc.count("tick")
	case *ast.RangeStmt:
		fc.insertAfter(n.Body.Lbrace+1, " simrt.Tick();", d)
		fc.count("tick")
		t := fc.typeOf(n.X)
		switch u := under(t).(type) {
		case *types.Map:
			if !keyIsStable(u.Key()) {
				fc.warn(n.X.Pos(), "map range with address-dependent key type left outside the seam: "+t.String())
				fc.count("map_range_skipped")
				break
			}
			id := fc.siteID(n.X.Pos(), "range", t)
			fc.insertBefore(n.X.Pos(), "simrt.MapSeq(", d)
			fc.insertAfter(n.X.End(), fmt.Sprintf(", %q)", id), d)
			fc.count("map_range")
		case *types.Chan:
			fc.insertBefore(n.X.Pos(), "(", d)
			fc.insertAfter(n.X.End(), ").All()", d)
			fc.count("chan_range")
		}
	case *ast.SelectStmt:
		if _, labeled := parent.(*ast.LabeledStmt); labeled {
			fc.unsupported(n.Pos(), "labeled select statement")
			return
		}
		fc.rewriteSelect(n, d)
	case *ast.GoStmt:
		fc.rewriteGo(n, d)
	case *ast.SendStmt:
		fc.insertBefore(n.Chan.Pos(), "(", d)
		fc.replace(n.Chan.End(), n.Value.Pos(), ").Send(", d, false)
		fc.insertAfter(n.Value.End(), ")", d)
		fc.count("chan_send")
	case *ast.UnaryExpr:
		if n.Op == token.ARROW {
			m := "Recv"
			if tv, ok := fc.info.Types[n]; ok {
				if _, isTuple := tv.Type.(*types.Tuple); isTuple {
					m = "Recv2"
				}
			}
			fc.replace(n.OpPos, n.X.Pos(), "(", d, false)
			fc.insertAfter(n.X.End(), ")."+m+"()", d)
			fc.count("chan_recv")
		}
	case *ast.ChanType:
		if fc.handledChanTypes[n] {
			return
		}
		if ts, ok := parent.(*ast.TypeSpec); ok && ts.Type == n {
			fc.unsupported(n.Pos(), "named channel type")
			return
		}
		fc.replace(n.Begin, n.Value.Pos(), "*simrt.Chan[", d, false)
		fc.insertAfter(n.Value.End(), "]", d)
		fc.count("chan_type")
	case *ast.CallExpr:
		fc.visitCall(n, d)
	case *ast.SelectorExpr:
		path, local, ok := fc.pkgOf(n.X)
		if !ok {
			return
		}
		switch path {
		case "os":
			switch n.Sel.Name {
			case "Stdin":
				fc.replace(n.Pos(), n.End(), "simrt.Stdin()", d, false)
				fc.markRewritten(local)
				fc.count("os.Stdin")
			case "Stdout":
				fc.replace(n.Pos(), n.End(), "simrt.Stdout()", d, false)
				fc.markRewritten(local)
				fc.count("os.Stdout")
			case "Stderr":
				fc.replace(n.Pos(), n.End(), "simrt.Stderr()", d, false)
				fc.markRewritten(local)
				fc.count("os.Stderr")
			default:
				if r, ok := osFuncs[n.Sel.Name]; ok {
					fc.replace(n.Pos(), n.End(), "simrt."+r, d, false)
					fc.markRewritten(local)
					fc.count("os." + n.Sel.Name)
				}
			}
		case "math/rand", "math/rand/v2":
			if r, ok := randFuncs[n.Sel.Name]; ok && r != "" {
				fc.replace(n.Pos(), n.End(), "simrt."+r, d, false)
				fc.markRewritten(local)
				fc.count("rand." + n.Sel.Name)
			} else if n.Sel.Name == "New" || n.Sel.Name == "NewSource" || n.Sel.Name == "Rand" || n.Sel.Name == "Source" {
				// explicitly seeded generators are deterministic by themselves
			} else {
				fc.warn(n.Pos(), "math/rand."+n.Sel.Name+" left outside the seam")
			}
		case "crypto/rand":
			switch n.Sel.Name {
			case "Read":
				fc.replace(n.Pos(), n.End(), "simrt.CryptoRead", d, false)
				fc.markRewritten(local)
				fc.count("crypto/rand.Read")
			case "Reader":
				fc.replace(n.Pos(), n.End(), "simrt.CryptoReader", d, false)
				fc.markRewritten(local)
				fc.count("crypto/rand.Reader")
			case "Text":
				fc.replace(n.Pos(), n.End(), "simrt.CryptoText", d, false)
				fc.markRewritten(local)
				fc.count("crypto/rand.Text")
			}
		case "io":
			switch n.Sel.Name {
			case "Pipe", "PipeReader", "PipeWriter":
				fc.replace(n.Pos(), n.End(), "simrt."+n.Sel.Name, d, false)
				fc.markRewritten(local)
				fc.count("io." + n.Sel.Name)
			}
		case "net":
			if n.Sel.Name == "Pipe" || n.Sel.Name == "Dial" || n.Sel.Name == "Listen" {
				fc.unsupported(n.Pos(), "net."+n.Sel.Name)
			}
		case "sync":
			if r, ok := syncTypes[n.Sel.Name]; ok {
				fc.replace(n.Pos(), n.End(), "simrt."+r, d, false)
				fc.markRewritten(local)
				fc.count("sync." + n.Sel.Name)
			} else if n.Sel.Name == "Cond" || n.Sel.Name == "NewCond" {
				fc.replace(n.Pos(), n.End(), "simrt."+n.Sel.Name, d, false)
				fc.markRewritten(local)
				fc.count("sync." + n.Sel.Name)
			}
		case "time":
			switch n.Sel.Name {
			case "Now", "Since", "Sleep":
				fc.replace(n.Pos(), n.End(), "simrt."+n.Sel.Name, d, false)
				fc.markRewritten(local)
				fc.count("time." + n.Sel.Name)
			case "After", "NewTimer", "NewTicker", "AfterFunc", "Timer", "Ticker":
				fc.replace(n.Pos(), n.End(), "simrt."+n.Sel.Name, d, false)
				fc.markRewritten(local)
				fc.count("time." + n.Sel.Name)
			case "Tick":
				fc.replace(n.Pos(), n.End(), "simrt.TimeTick", d, false)
				fc.markRewritten(local)
				fc.count("time.Tick")
			}
		case "runtime":
			switch n.Sel.Name {
			case "NumCPU", "GOMAXPROCS", "Gosched":
				fc.replace(n.Pos(), n.End(), "simrt."+n.Sel.Name, d, false)
				fc.markRewritten(local)
				fc.count("runtime." + n.Sel.Name)
			}
		case "golang.org/x/sync/errgroup":
			switch n.Sel.Name {
			case "Group":
				fc.replace(n.Pos(), n.End(), "simrt.ErrGroup", d, false)
				fc.markRewritten(local)
				fc.count("errgroup.Group")
			case "WithContext":
				fc.replace(n.Pos(), n.End(), "simrt.ErrGroupWithContext", d, false)
				fc.markRewritten(local)
				fc.count("errgroup.WithContext")
			default:
				fc.unsupported(n.Pos(), "errgroup."+n.Sel.Name)
			}
		case "context":
			switch n.Sel.Name {
			case "WithTimeout", "WithDeadline", "WithCancel":
				fc.replace(n.Pos(), n.End(), "simrt."+n.Sel.Name, d, false)
				fc.markRewritten(local)
				fc.count("context." + n.Sel.Name)
			case "WithCancelCause", "WithTimeoutCause", "WithDeadlineCause", "Cause":
				fc.replace(n.Pos(), n.End(), "simrt."+n.Sel.Name, d, false)
				fc.markRewritten(local)
				fc.count("context." + n.Sel.Name)
			case "AfterFunc":
				fc.unsupported(n.Pos(), "context."+n.Sel.Name)
			}
		case "os/signal":
			switch n.Sel.Name {
			case "NotifyContext":
				fc.replace(n.Pos(), n.End(), "simrt.NotifyContext", d, false)
				fc.markRewritten(local)
				fc.count("signal.NotifyContext")
			case "Notify", "Stop", "Ignore", "Reset":
				fc.replace(n.Pos(), n.End(), "simrt.Signal"+n.Sel.Name, d, false)
				fc.markRewritten(local)
				fc.count("signal." + n.Sel.Name)
			}
		}
	}
}

// externalChanCall: a call into a package outside the module (other than
// the seams of package time) whose single result is a channel.
func (fc *fileCtx) externalChanCall(n *ast.CallExpr) bool {
	tv, ok := fc.info.Types[n]
	if !ok || tv.Type == nil {
		return false
	}
	if _, isChan := under(tv.Type).(*types.Chan); !isChan {
		return false
	}
	var obj types.Object
	switch f := n.Fun.(type) {
	case *ast.Ident:
		obj = fc.info.Uses[f]
	case *ast.SelectorExpr:
		if sel, ok := fc.info.Selections[f]; ok {
			obj = sel.Obj()
		} else {
			obj = fc.info.Uses[f.Sel]
		}
	}
	fn, ok := obj.(*types.Func)
	if !ok || fn.Pkg() == nil {
		return false
	}
	path := fn.Pkg().Path()
	if fc.localPkgs[path] || path == "time" {
		return false
	}
	return true
}

func (fc *fileCtx) visitCall(n *ast.CallExpr, d int) {
	if fc.externalChanCall(n) {
		fc.insertBefore(n.Pos(), "simrt.Twin(", d)
		fc.insertAfter(n.End(), ")", d)
		fc.count("external_chan_call")
	}
	// builtins on channels
	if id, ok := n.Fun.(*ast.Ident); ok {
		if _, isBuiltin := fc.info.Uses[id].(*types.Builtin); isBuiltin && len(n.Args) >= 1 {
			switch id.Name {
			case "make":
				if ct, ok := n.Args[0].(*ast.ChanType); ok {
					fc.handledChanTypes[ct] = true
					fc.replace(n.Pos(), ct.Value.Pos(), "simrt.MakeChan[", d, false)
					if len(n.Args) >= 2 {
						fc.replace(ct.Value.End(), n.Args[1].Pos(), "](", d, true)
					} else {
						fc.replace(ct.Value.End(), n.Rparen, "](0", d, true)
					}
					fc.count("chan_make")
					return
				}
				if _, isChan := under(fc.typeOf(n.Args[0])).(*types.Chan); isChan {
					fc.unsupported(n.Pos(), "make of a named channel type")
				}
			case "close", "len", "cap":
				if _, isChan := under(fc.typeOf(n.Args[0])).(*types.Chan); isChan {
					m := map[string]string{"close": "Close", "len": "Len", "cap": "Cap"}[id.Name]
					fc.replace(n.Pos(), n.Args[0].Pos(), "(", d, false)
					fc.replace(n.Args[0].End(), n.End(), ")."+m+"()", d, true)
					fc.count("chan_" + id.Name)
				}
			}
			return
		}
	}
	// maps.Keys / maps.Values / maps.All
	if se, ok := n.Fun.(*ast.SelectorExpr); ok {
		if path, local, ok := fc.pkgOf(se.X); ok && path == "maps" && len(n.Args) == 1 {
			var fn string
			switch se.Sel.Name {
			case "Keys":
				fn = "MapsKeys"
			case "Values":
				fn = "MapsValues"
			case "All":
				fn = "MapSeq"
			}
			if fn != "" {
				t := fc.typeOf(n.Args[0])
				if m, ok := under(t).(*types.Map); ok && keyIsStable(m.Key()) {
					id := fc.siteID(n.Pos(), "maps."+se.Sel.Name, t)
					fc.replace(se.Pos(), se.End(), "simrt."+fn, d, false)
					fc.insertAfter(n.Rparen, fmt.Sprintf(", %q", id), d)
					fc.markRewritten(local)
					fc.count("maps." + se.Sel.Name)
				} else {
					fc.warn(n.Pos(), "maps."+se.Sel.Name+" left outside the seam")
				}
			}
		}
	}
}

func (fc *fileCtx) rewriteGo(n *ast.GoStmt, d int) {
	call := n.Call
	nargs := len(call.Args)
	if call.Ellipsis.IsValid() || nargs > 8 {
		fc.unsupported(n.Pos(), "go statement with variadic call or more than 8 arguments")
		return
	}
	sig, _ := under(fc.typeOf(call.Fun)).(*types.Signature)
	if sig == nil {
		fc.unsupported(n.Pos(), "go statement on a non-function value (conversion or builtin)")
		return
	}
	if sig.Variadic() {
		fc.unsupported(n.Pos(), "go statement on a variadic function")
		return
	}
	name := fmt.Sprintf("simrt.Go%d", nargs)
	switch sig.Results().Len() {
	case 0:
	case 1:
		if nargs > 4 {
			fc.unsupported(n.Pos(), "go statement: function with result and more than 4 arguments")
			return
		}
		name += "R"
	default:
		fc.unsupported(n.Pos(), "go statement on a function with several results")
		return
	}
	fc.replace(n.Go, call.Fun.Pos(), name+"(", d, false)
	if nargs == 0 {
		fc.replace(call.Lparen, call.Lparen+1, "", d, true)
	} else {
		fc.replace(call.Lparen, call.Lparen+1, ", ", d, true)
	}
	fc.count("go")
}

// simpleExpr reports whether the source text of e can be copied verbatim into
// generated code: nothing inside it is subject to another rewrite.
func (fc *fileCtx) simpleExpr(e ast.Expr) bool {
	ok := true
	ast.Inspect(e, func(n ast.Node) bool {
		switch n := n.(type) {
		case *ast.FuncLit, *ast.ChanType:
			ok = false
		case *ast.UnaryExpr:
			if n.Op == token.ARROW {
				ok = false
			}
		case *ast.CallExpr:
			if id, isID := n.Fun.(*ast.Ident); isID {
				if _, isBuiltin := fc.info.Uses[id].(*types.Builtin); isBuiltin && len(n.Args) > 0 {
					if _, isChan := under(fc.typeOf(n.Args[0])).(*types.Chan); isChan {
						ok = false
					}
				}
			}
		case *ast.SelectorExpr:
			if path, _, isPkg := fc.pkgOf(n.X); isPkg {
				switch path {
				case "os", "sync", "runtime", "maps", "context", "io", "golang.org/x/sync/errgroup":
					ok = false
				case "time":
					if timeSeams[n.Sel.Name] {
						ok = false
					}
				}
			}
		}
		return ok
	})
	return ok
}

// timerOperand: `time.After(d)` / `time.Tick(d)` as the operand of a select
// case (the usual way to write a timeout); d must be free of seams.
func (fc *fileCtx) timerOperand(e ast.Expr) (string, bool) {
	call, ok := ast.Unparen(e).(*ast.CallExpr)
	if !ok || len(call.Args) != 1 {
		return "", false
	}
	sel, ok := call.Fun.(*ast.SelectorExpr)
	if !ok {
		return "", false
	}
	path, local, isPkg := fc.pkgOf(sel.X)
	if !isPkg || path != "time" || (sel.Sel.Name != "After" && sel.Sel.Name != "Tick") || !fc.simpleExpr(call.Args[0]) {
		return "", false
	}
	fn := "simrt.After"
	if sel.Sel.Name == "Tick" {
		fn = "simrt.TimeTick"
	}
	fc.markRewritten(local)
	fc.count("time." + sel.Sel.Name)
	return fn + "(" + fc.srcOf(fc.src, call.Args[0]) + ")", true
}

func (fc *fileCtx) srcOf(src []byte, n ast.Node) string {
	return string(src[fc.off(n.Pos()):fc.off(n.End())])
}

// rewriteSelect turns
//
//	select { case v := <-a: A; case b <- x: B; default: D }
//
// into
//
//	{ s0 := simrt.NewRecv(a); s1 := simrt.NewSend(b, x)
//	  switch simrt.Select(true, s0, s1) { case 0: v := s0.Value(); A; case 1: B; default: D } }
//
// Channel operands and send values are evaluated once, in source order, on
// entering the statement, as the language specifies.
func (fc *fileCtx) rewriteSelect(n *ast.SelectStmt, d int) {
	src := fc.src
	tag := fmt.Sprintf("sel%d_%d", fc.line(n.Pos()), fc.tf.Position(n.Pos()).Column)
	var pro strings.Builder
	pro.WriteString("{ ")
	var names []string
	hasDefault := false
	type clauseEdit struct {
		cc   *ast.CommClause
		text string
	}
	var ces []clauseEdit
	idx := 0
	for _, st := range n.Body.List {
		cc := st.(*ast.CommClause)
		if cc.Comm == nil {
			hasDefault = true
			continue
		}
		name := fmt.Sprintf("%s_%d", tag, idx)
		var recvX ast.Expr
		head := ""
		switch c := cc.Comm.(type) {
		case *ast.SendStmt:
			if !fc.simpleExpr(c.Chan) || !fc.simpleExpr(c.Value) {
				fc.unsupported(c.Pos(), "select case with a nested channel operation or seam call")
				return
			}
			fmt.Fprintf(&pro, "%s := simrt.NewSend(%s, %s); ", name, fc.srcOf(src, c.Chan), fc.srcOf(src, c.Value))
		case *ast.ExprStmt:
			u, ok := ast.Unparen(c.X).(*ast.UnaryExpr)
			if !ok || u.Op != token.ARROW {
				fc.unsupported(c.Pos(), "select case of unknown form")
				return
			}
			recvX = u.X
		case *ast.AssignStmt:
			if len(c.Rhs) != 1 {
				fc.unsupported(c.Pos(), "select case of unknown form")
				return
			}
			u, ok := ast.Unparen(c.Rhs[0]).(*ast.UnaryExpr)
			if !ok || u.Op != token.ARROW {
				fc.unsupported(c.Pos(), "select case of unknown form")
				return
			}
			recvX = u.X
			var lhs []string
			for _, l := range c.Lhs {
				if !fc.simpleExpr(l) {
					fc.unsupported(c.Pos(), "select case assigning to a complex expression")
					return
				}
				lhs = append(lhs, fc.srcOf(src, l))
			}
			m := "Value"
			if len(lhs) == 2 {
				m = "Value2"
			}
			head = fmt.Sprintf(" %s %s %s.%s();", strings.Join(lhs, ", "), c.Tok.String(), name, m)
		default:
			fc.unsupported(cc.Pos(), "select case of unknown form")
			return
		}
		if recvX != nil {
			if text, ok := fc.timerOperand(recvX); ok {
				fmt.Fprintf(&pro, "%s := simrt.NewRecv(%s); ", name, text)
			} else if call, isCall := ast.Unparen(recvX).(*ast.CallExpr); isCall && fc.externalChanCall(call) && fc.simpleExpr(recvX) {
				fmt.Fprintf(&pro, "%s := simrt.NewRecv(simrt.Twin(%s)); ", name, fc.srcOf(src, recvX))
			} else if !fc.simpleExpr(recvX) {
				fc.unsupported(recvX.Pos(), "select case with a nested channel operation or seam call")
				return
			} else {
				fmt.Fprintf(&pro, "%s := simrt.NewRecv(%s); ", name, fc.srcOf(src, recvX))
			}
		}
		names = append(names, name)
		ces = append(ces, clauseEdit{cc: cc, text: fmt.Sprintf("case %d:%s", idx, head)})
		idx++
	}
	fmt.Fprintf(&pro, "switch simrt.Select(%v", hasDefault)
	for _, nm := range names {
		pro.WriteString(", " + nm)
	}
	pro.WriteString(") {")
	// `select {` -> prologue
	fc.replace(n.Select, n.Body.Lbrace+1, pro.String(), d, false)
	for _, ce := range ces {
		fc.replace(ce.cc.Pos(), ce.cc.Colon+1, ce.text, d, false)
		fc.skip = append(fc.skip, [2]token.Pos{ce.cc.Pos(), ce.cc.Colon + 1})
	}
	if !hasDefault {
		// keeps the statement terminating when every case is (a select whose
		// cases all return ends a function; a switch needs a default for that)
		fc.insertBefore(n.Body.Rbrace, "default: panic(\"simrt: select fired no case\"); ", d)
	}
	fc.insertAfter(n.Body.Rbrace+1, "}", d)
	fc.count("select")
}
