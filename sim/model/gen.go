package model

import (
	"fmt"
	"strings"
)

// Rand is the driver's only source of randomness: splitmix64, seeded from
// VERIF_SEED and a purpose/run label.
type Rand struct{ s uint64 }

func NewRand(seed uint64, label string) *Rand {
	h := uint64(1469598103934665603)
	for i := 0; i < len(label); i++ {
		h ^= uint64(label[i])
		h *= 1099511628211
	}
	r := &Rand{s: seed ^ h}
	r.U64()
	return r
}

func (r *Rand) U64() uint64 {
	r.s += 0x9e3779b97f4a7c15
	z := r.s
	z = (z ^ (z >> 30)) * 0xbf58476d1ce4e5b9
	z = (z ^ (z >> 27)) * 0x94d049bb133111eb
	return z ^ (z >> 31)
}

func (r *Rand) Intn(n int) int {
	if n <= 1 {
		return 0
	}
	return int(r.U64() % uint64(n))
}

// Chance is true with probability num/den.
func (r *Rand) Chance(num, den int) bool { return r.Intn(den) < num }

// Perm returns a seeded permutation of 0..n-1.
func (r *Rand) Perm(n int) []int {
	p := make([]int, n)
	for i := range p {
		p[i] = i
	}
	for i := n - 1; i > 0; i-- {
		j := r.Intn(i + 1)
		p[i], p[j] = p[j], p[i]
	}
	return p
}

func Pick[T any](r *Rand, xs []T) T { return xs[r.Intn(len(xs))] }

// ---------------------------------------------------------------------------
// Chord-text sentences

type TextOpts struct {
	Mode       string // "syllable" | "degree"
	MaxItems   int
	Trivia     bool // random spaces / newlines / comments between tokens
	Unicode    bool // ♯ ♭ and non-ASCII in symbols / metadata
	Exotic     bool // free-form symbols, odd metadata keys, leading zeros, long numbers
	Meta       bool
	Musical    bool // keep values/keys/bpm musically valid so that conv and write succeed
	KnownSyms  []string
	Keys       []string
	EndComment bool
}

var (
	letters       = []string{"C", "D", "E", "F", "G", "A", "B"}
	plainSymbols  = []string{"m", "m7", "maj7", "M7", "dim", "aug", "sus4", "sus2", "m7b5", "dim7", "add9", "mM7", "m9", "maj9", "m6", "augM7", "mM9", "M9"}
	numSymbols    = []string{"7", "9", "6", "7sus4"}
	oddSymbols    = []string{"+", "-", "°", "ø7", "Δ", "(b9)", "m]", "x{y}", "m,7", "m#5", "ｍ", "x]y", "!", "mé7", "日本", "%", "m}", "q:r", "'", "\"", "*", "&", "|", "~", "\\", "^", "@",
		// decimal digits outside ASCII are symbol characters, not NUMBERs
		"٣", "１", "m７", "१३", "௧", "²", "Ⅳ", "߂"}
	dynamics      = []string{"pp", "p", "mp", "mf", "f", "ff"}
	SupportedKeys = []string{
		"Cb", "Gb", "Db", "Ab", "Eb", "Bb", "F", "C", "G", "D", "A", "E", "B", "F#", "C#",
		"Am", "Em", "Bm", "F#m", "C#m", "G#m", "D#m", "Dm", "Gm", "Cm", "Fm", "Bbm", "Ebm",
	}
	// UnsupportedKeys are the [A-G][#b]?m? spellings that have no scale.
	UnsupportedKeys = []string{"G#", "D#", "A#", "E#", "B#", "Fb", "Abm", "Dbm", "Gbm", "Cbm", "Fbm", "A#m", "E#m", "B#m"}
)

// Sentence is a generated text with the tree it was generated from.
type Sentence struct {
	Text  string  `json:"text"`
	Items []ItemT `json:"items"`
	Mode  string  `json:"mode"`
}

func genDegreeTok(r *Rand, o *TextOpts) DegreeT {
	var d DegreeT
	if o.Mode == "syllable" {
		d.Head = Pick(r, letters)
	} else {
		n := 1 + r.Intn(7)
		if r.Chance(1, 6) {
			n = 1 + r.Intn(15)
		}
		d.Head = fmt.Sprint(n)
		if o.Exotic && r.Chance(1, 5) {
			d.Head = strings.Repeat("0", 1+r.Intn(2)) + d.Head
		}
		if o.Exotic && !o.Musical && r.Chance(1, 12) {
			d.Head = Pick(r, []string{"0", "16", "64", "100", "255", "256", "1000", "65536", "1000000", "4294967296", "18446744073709551615", "18446744073709551616", "99999999999999999999"})
		}
	}
	if r.Chance(1, 3) {
		d.HasAcc = true
		if o.Unicode && r.Chance(1, 2) {
			d.Acc = Pick(r, []string{"♯", "♭"})
		} else {
			d.Acc = Pick(r, []string{"#", "b"})
		}
	}
	return d
}

func genValue(r *Rand, o *TextOpts) ValueT {
	v := ValueT{Num: fmt.Sprint(1 + r.Intn(4))}
	if r.Chance(1, 3) {
		v.HasDenom = true
		v.Num = fmt.Sprint(1 + r.Intn(7))
		v.Denom = Pick(r, []string{"2", "4", "8", "3", "16", "5", "7", "32", "12"})
	}
	if o.Exotic {
		if r.Chance(1, 6) {
			v.Num = strings.Repeat("0", 1+r.Intn(2)) + v.Num
		}
		if v.HasDenom && r.Chance(1, 6) {
			v.Denom = "0" + v.Denom
		}
		if !o.Musical && r.Chance(1, 10) {
			v.Num = Pick(r, []string{"0", "00", "18446744073709551616", "99999999999999999999", "4294967296"})
		}
		if !o.Musical && r.Chance(1, 8) {
			// fractions at the edges of 32/64-bit ranges
			v.HasDenom = true
			v.Denom = Pick(r, EdgeInts)
			v.Num = Pick(r, append([]string{"1", "2", "3"}, EdgeInts...))
		}
		if !o.Musical && v.HasDenom && r.Chance(1, 10) {
			v.Denom = Pick(r, []string{"0", "000"})
		}
	}
	return v
}

func genMetaText(r *Rand, o *TextOpts) string {
	words := []string{"hello", "la la", "verse 1", "A-B", "x;y", "a  b", "100%", "ok.", "it's", "[1]", "C/E", "_x_", "#1", "q: r", "- dash", "yes", "null", "~", "1e3", "0x10", "\"quoted\"", "'single'", "\"la", "la\"", "\"", "a\"b", "\\\"x", "a: b", "&anchor", "*alias", "!tag", "|", ">", "@at", "`tick`"}
	if o.Unicode && r.Chance(1, 2) {
		words = append(words, "café", "日本語", "♪♫", "naïve — dash", "\U0001F3B5", "a\u00a0b", "x\u2028y", "é")
	}
	s := Pick(r, words)
	if r.Chance(1, 4) {
		s += " " + Pick(r, words)
	}
	if o.Exotic && r.Chance(1, 6) {
		s += "\nline2"
	}
	if o.Exotic && r.Chance(1, 8) {
		s += "  "
	}
	return s
}

func genMeta(r *Rand, o *TextOpts) []PairT {
	var ps []PairT
	n := 1 + r.Intn(3)
	used := map[string]bool{}
	if r.Chance(1, 12) {
		// several keys crd does not know, in one item (they are carried along:
		// the order they are printed in is part of the result)
		for _, k := range []string{"zeta", "alpha", "Mid", "9th", "foo", "bar"}[r.Intn(3):] {
			ps = append(ps, PairT{Key: k, Value: genMetaText(r, o)})
			used[k] = true
		}
	}
	for i := 0; i < n; i++ {
		k := Pick(r, []string{"txt", "lic", "mrk", "bpm", "vel", "mtr", "key"})
		if o.Exotic && r.Chance(1, 8) {
			k = Pick(r, []string{"foo", "x y", "TXT", "k;", "1", "[", "a/b"})
		}
		if used[k] && !(o.Exotic && r.Chance(1, 2)) {
			continue
		}
		used[k] = true
		var v string
		switch k {
		case "bpm":
			v = fmt.Sprint(40 + r.Intn(200))
		case "vel":
			v = Pick(r, dynamics)
		case "mtr":
			v = fmt.Sprintf("%d/%d", 1+r.Intn(12), Pick(r, []int{2, 4, 8, 16}))
		case "key":
			if len(o.Keys) > 0 {
				v = Pick(r, o.Keys)
			} else {
				v = Pick(r, SupportedKeys)
			}
		default:
			v = genMetaText(r, o)
		}
		ps = append(ps, PairT{Key: k, Value: v})
	}
	return ps
}

// GenItems draws a list of chords and rests.
func GenItems(r *Rand, o *TextOpts) []ItemT {
	n := 1 + r.Intn(max(1, o.MaxItems))
	items := make([]ItemT, 0, n)
	for i := 0; i < n; i++ {
		var it ItemT
		if r.Chance(1, 6) {
			it.Rest = true
		} else {
			it.Degree = genDegreeTok(r, o)
			switch {
			case r.Chance(2, 5):
				// no symbol
			case o.Exotic && r.Chance(1, 4):
				it.HasSymbol = true
				it.Symbol = Pick(r, oddSymbols)
			case r.Chance(1, 4):
				it.HasSymbol = true
				it.Symbol = Pick(r, numSymbols)
			default:
				it.HasSymbol = true
				if len(o.KnownSyms) > 0 && r.Chance(1, 2) {
					it.Symbol = Pick(r, o.KnownSyms)
				} else {
					it.Symbol = Pick(r, plainSymbols)
				}
			}
			if it.HasSymbol && it.Symbol == "" {
				it.HasSymbol = false
			}
			if r.Chance(1, 4) {
				b := genDegreeTok(r, o)
				it.Bass = &b
			}
		}
		nv := 1
		if r.Chance(1, 4) {
			nv = 1 + r.Intn(4)
		}
		for j := 0; j < nv; j++ {
			it.Values = append(it.Values, genValue(r, o))
		}
		if o.Meta && r.Chance(1, 3) {
			it.HasMeta = true
			it.Meta = genMeta(r, o)
			if len(it.Meta) == 0 {
				it.HasMeta = false
			}
		}
		items = append(items, it)
	}
	return items
}

// needsUnderscore: a symbol written directly after the degree would be
// tokenised as something else (Appendix A step 4/5).
func needsUnderscore(sym string) bool {
	if sym == "" {
		return false
	}
	r := []rune(sym)[0]
	switch r {
	case 'C', 'D', 'E', 'F', 'G', 'A', 'B', 'R', ']', '{', '}', ',', '#', '♯', 'b', '♭':
		return true
	}
	return r >= '0' && r <= '9'
}

func trivia(r *Rand, o *TextOpts, allowComment bool) string {
	if !o.Trivia {
		return ""
	}
	switch r.Intn(10) {
	case 0, 1, 2, 3, 4:
		return ""
	case 5:
		return " "
	case 6:
		return Pick(r, []string{"  ", "\t", "\n", " \n ", "\r\n", "\r", "\v", "\f", "\r\r"})
	case 7:
		if o.Unicode {
			return Pick(r, []string{" ", "　", " ", "\u0085"})
		}
		return " "
	default:
		if allowComment {
			return Pick(r, []string{"; c\n", " ;comment [1] {x=y}\n", ";\n", "\n; two\n; lines\n", "; C[1]\n",
				// line-break-like characters other than LF do not end a comment
				"; x\rD[\n", "; a\vb ]\n", "; a\fC[1\n", "; nel\u0085{ \n", "; ls\u2028[[\n", "; ps\u2029 }\n", "; cr\r\n", "; tab\there ]\n"})
		}
		return " "
	}
}

// Render writes items as text. The rendering only makes choices the grammar
// says are immaterial (trivia, optional underscore), so Recognise(Render(x))
// must give x back.
func Render(r *Rand, o *TextOpts, items []ItemT) string {
	var sb strings.Builder
	tv := func(comment bool) { sb.WriteString(trivia(r, o, comment)) }
	deg := func(d DegreeT) {
		sb.WriteString(d.Head)
		if d.HasAcc {
			tv(true)
			sb.WriteString(d.Acc)
		}
	}
	for i, it := range items {
		if i > 0 {
			// separate items so that tokens do not merge
			s := trivia(r, o, true)
			if s == "" {
				s = " "
			}
			sb.WriteString(s)
		} else {
			tv(true)
		}
		if it.Rest {
			sb.WriteString("R")
		} else {
			deg(it.Degree)
			if it.HasSymbol {
				us := needsUnderscore(it.Symbol) || (o.Trivia && r.Chance(1, 5))
				if us {
					tv(true)
					sb.WriteString("_")
					// only spaces may separate _ and the symbol
					if o.Trivia && r.Chance(1, 6) {
						sb.WriteString(" ")
					}
				} else {
					// a directly written symbol must not merge with a number head
					if o.Trivia && r.Chance(1, 6) {
						sb.WriteString(" ")
					}
				}
				sb.WriteString(it.Symbol)
				// a symbol ends at white space or one of / [ _ ; =
				if it.Bass == nil {
					if o.Trivia && r.Chance(1, 3) {
						sb.WriteString(Pick(r, []string{" ", "\n", ";c\n"}))
					}
				} else if o.Trivia && r.Chance(1, 4) {
					sb.WriteString(" ")
				}
			} else {
				tv(true)
			}
			if it.Bass != nil {
				sb.WriteString("/")
				tv(true)
				deg(*it.Bass)
				tv(true)
			}
		}
		tv(true)
		sb.WriteString("[")
		for j, v := range it.Values {
			if j > 0 {
				tv(true)
				sb.WriteString(",")
			}
			tv(true)
			sb.WriteString(v.Num)
			if v.HasDenom {
				tv(true)
				sb.WriteString("/")
				tv(true)
				sb.WriteString(v.Denom)
			}
		}
		tv(true)
		sb.WriteString("]")
		if it.HasMeta {
			tv(true)
			sb.WriteString("{")
			for j, p := range it.Meta {
				if j > 0 {
					sb.WriteString(",")
				}
				// leading white space is not part of a metadata token
				if o.Trivia && r.Chance(1, 4) {
					sb.WriteString(Pick(r, []string{" ", "\n", "  "}))
				}
				sb.WriteString(p.Key)
				sb.WriteString("=")
				if o.Trivia && r.Chance(1, 4) {
					sb.WriteString(" ")
				}
				sb.WriteString(p.Value)
			}
			sb.WriteString("}")
		}
	}
	if o.Trivia {
		sb.WriteString(Pick(r, []string{"", "\n", " ", "\n\n", " ; end\n"}))
	}
	if o.EndComment {
		sb.WriteString(Pick(r, []string{";", "; trailing comment without newline", " ;x"}))
	}
	return sb.String()
}

// GenSentence draws items and renders them.
func GenSentence(r *Rand, o *TextOpts) Sentence {
	items := GenItems(r, o)
	return Sentence{Text: Render(r, o, items), Items: items, Mode: o.Mode}
}
