package model

import (
	"encoding/binary"
	"testing"
)

func chunk(typ string, data []byte) []byte {
	b := []byte(typ)
	var l [4]byte
	binary.BigEndian.PutUint32(l[:], uint32(len(data)))
	return append(append(b, l[:]...), data...)
}

func header(format, ntrks, div int) []byte {
	d := make([]byte, 6)
	binary.BigEndian.PutUint16(d[0:], uint16(format))
	binary.BigEndian.PutUint16(d[2:], uint16(ntrks))
	binary.BigEndian.PutUint16(d[4:], uint16(div))
	return chunk("MThd", d)
}

var eot = []byte{0x00, 0xFF, 0x2F, 0x00}

func cat(bs ...[]byte) []byte {
	var out []byte
	for _, b := range bs {
		out = append(out, b...)
	}
	return out
}

func TestStrictSMF(t *testing.T) {
	note := []byte{0x00, 0x90, 60, 64, 0x83, 0x60, 0x80, 60, 0}
	good := cat(header(0, 1, 960), chunk("MTrk", cat(note, eot)))
	if _, err := ParseSMF(good, 1); err != nil {
		t.Fatalf("good file rejected: %v", err)
	}
	two := cat(header(1, 2, 960), chunk("MTrk", cat([]byte{0x00, 0xFF, 0x51, 0x03, 1, 2, 3}, eot)), chunk("MTrk", cat(note, eot)))
	if _, err := ParseSMF(two, 2); err != nil {
		t.Fatalf("good two-track file rejected: %v", err)
	}
	bad := map[string][]byte{
		"format":        cat(header(1, 1, 960), chunk("MTrk", cat(note, eot))),
		"format2":       cat(header(0, 2, 960), chunk("MTrk", eot), chunk("MTrk", eot)),
		"ntrks":         cat(header(1, 3, 960), chunk("MTrk", eot), chunk("MTrk", eot)),
		"chunk":         append(append([]byte{}, good...), 0x00),
		"eot":           cat(header(0, 1, 960), chunk("MTrk", note)),
		"eot2":          cat(header(0, 1, 960), chunk("MTrk", cat(eot, note, eot))),
		"data-byte":     cat(header(0, 1, 960), chunk("MTrk", cat([]byte{0x00, 0x90, 200, 64, 0x00, 0x80, 200, 0}, eot))),
		"vlq":           cat(header(0, 1, 960), chunk("MTrk", cat([]byte{0x81, 0x80, 0x80, 0x80, 0x00, 0x90, 60, 64, 0x00, 0x80, 60, 0}, eot))),
		"hanging-note":  cat(header(0, 1, 960), chunk("MTrk", cat([]byte{0x00, 0x90, 60, 64}, eot))),
		"unmatched-off": cat(header(0, 1, 960), chunk("MTrk", cat([]byte{0x00, 0x80, 60, 0}, eot))),
		"meta-track":    cat(header(1, 2, 960), chunk("MTrk", eot), chunk("MTrk", cat([]byte{0x00, 0xFF, 0x51, 0x03, 1, 2, 3}, eot))),
		"status":        cat(header(0, 1, 960), chunk("MTrk", cat([]byte{0x00, 60, 64}, eot))),
		"header":        cat(chunk("MThd", []byte{0, 0, 0, 1, 0x80, 0}), chunk("MTrk", eot)),
	}
	for want, b := range bad {
		_, err := ParseSMF(b, -1)
		if err == nil {
			t.Errorf("%s: accepted", want)
			continue
		}
		w := want
		if w == "format2" {
			w = "format"
		}
		if w == "eot2" {
			w = "eot"
		}
		if err.Class != w {
			t.Errorf("%s: class %s (%v)", want, err.Class, err)
		}
	}
	if _, err := ParseSMF(good, 2); err == nil || err.Class != "ntrks" {
		t.Errorf("track-count expectation not enforced: %v", err)
	}
	// running status is legal
	rs := cat(header(0, 1, 960), chunk("MTrk", cat([]byte{0x00, 0x90, 60, 64, 0x00, 62, 64, 0x10, 60, 0, 0x00, 62, 0}, eot)))
	if _, err := ParseSMF(rs, 1); err != nil {
		t.Errorf("running status rejected: %v", err)
	}
}
