package model

import (
	"fmt"
	"math/big"
	"strconv"
	"strings"
)

// ---------------------------------------------------------------------------
// Instances documents (input of `crd write ...`)

type DocChord struct {
	Degree string `json:"degree"`
	Name   string `json:"name"`
	Base   string `json:"base,omitempty"`
}

type DocInst struct {
	Chord    *DocChord `json:"chord,omitempty"`
	Values   []string  `json:"values"`
	BPM      string    `json:"bpm,omitempty"`
	Velocity string    `json:"velocity,omitempty"`
	Meter    string    `json:"meter,omitempty"`
	Key      string    `json:"key,omitempty"`
	Meta     []PairT   `json:"meta,omitempty"`
}

type Doc struct {
	Insts []DocInst `json:"insts"`
}

type DocOpts struct {
	MaxInsts   int
	ChordNames []string // names and display symbols known to the dictionary
	Dynamics   []string // dynamic signs (default: the six documented ones)
	EdgeValues bool     // numerators/denominators at the edges of the integer ranges
	Settings   bool     // bpm / velocity / meter / key on instances
	Meta       bool
	Unicode    bool
	BigDegrees bool // degrees up to 15, doubly altered
	RestBias   int  // 0..10: how many tenths of the instances are rests
	TrailRest  bool
	OddValues  bool // denominators that do not divide the tick resolution
}

var docDegreesSimple = []string{"1", "2", "3", "4", "5", "6", "7", "b2", "b3", "#4", "b5", "b6", "b7", "#1", "#5"}
var docDegreesBig = []string{"8", "9", "b9", "#9", "10", "11", "#11", "12", "13", "b13", "14", "15", "bb7", "##4", "bb3", "bbb7", "##1", "bb6"}
var DocDegreesHuge = []string{"0", "16", "64", "100", "255", "1000", "65536", "1000000", "4294967296", "18446744073709551615", "b18446744073709551615", "18446744073709551616", "-1", "#", "b", "1b", "x"}
var docBases = []string{"1", "3", "5", "b3", "7", "b7", "2", "4", "6", "#4", "8", "10", "b10", "12", "15", "8", "10"}

var EdgeInts = []string{"4294967295", "4294967296", "4294967297", "2147483648", "9223372036854775807", "9223372036854775808", "18446744073709551615", "18446744073709551614", "65536", "16777216"}

func genDocValue(r *Rand, o *DocOpts) string {
	if o.EdgeValues && r.Chance(1, 2) {
		// fractions whose parts sit at the edges of 32/64-bit ranges, alone or
		// as pairs that add up to small sums
		d := Pick(r, EdgeInts)
		switch r.Intn(4) {
		case 0:
			return "1/" + d
		case 1:
			return Pick(r, EdgeInts) + "/" + d
		case 2:
			return Pick(r, EdgeInts)
		default:
			return fmt.Sprint(1+r.Intn(4)) + "/" + d
		}
	}
	if r.Chance(2, 3) {
		return fmt.Sprint(1 + r.Intn(4))
	}
	dens := []int{2, 4, 8, 3, 16}
	if o.OddValues {
		dens = append(dens, 7, 9, 11, 13, 32, 64, 100, 960, 1000, 7919)
	}
	if o.OddValues && r.Chance(1, 12) {
		// lengths below one tick (1/1920 beat at 960 ticks per quarter)
		return Pick(r, []string{"1/4000", "1/1921", "1/3840", "1/100000", "2/7919"})
	}
	d := Pick(r, dens)
	n := 1 + r.Intn(2*d)
	return fmt.Sprintf("%d/%d", n, d)
}

func GenDoc(r *Rand, o *DocOpts) Doc {
	n := 1 + r.Intn(max(1, o.MaxInsts))
	var d Doc
	for i := 0; i < n; i++ {
		var in DocInst
		if r.Intn(10) >= o.RestBias {
			c := &DocChord{}
			if o.BigDegrees && r.Chance(1, 4) {
				c.Degree = Pick(r, docDegreesBig)
			} else {
				c.Degree = Pick(r, docDegreesSimple)
			}
			if len(o.ChordNames) > 0 {
				c.Name = Pick(r, o.ChordNames)
			}
			if r.Chance(1, 4) {
				c.Base = Pick(r, docBases)
			}
			in.Chord = c
		}
		nv := 1
		if r.Chance(1, 4) {
			nv = 1 + r.Intn(3)
		}
		for j := 0; j < nv; j++ {
			in.Values = append(in.Values, genDocValue(r, o))
		}
		if o.OddValues && r.Chance(1, 15) {
			// a long tie: many values whose denominators share few factors (their
			// product is far beyond 64 bits, their sum is a small number)
			d := Pick(r, []string{"1000", "7919", "960", "4099", "65521"})
			in.Values = []string{Pick(r, []string{"1", "2", "1/2"})}
			for k := 5 + r.Intn(8); k > 0; k-- {
				in.Values = append(in.Values, fmt.Sprintf("%d/%s", 1+r.Intn(3), d))
			}
		}
		if o.EdgeValues && r.Chance(1, 3) {
			// several fractions over one huge denominator that add up to a small sum
			pair := Pick(r, [][2]string{{"4294967296", "4294967295"}, {"4294967295", "4294967294"}, {"18446744073709551615", "18446744073709551614"}, {"9223372036854775808", "9223372036854775807"}, {"65536", "65535"}, {"4294967297", "4294967296"}})
			in.Values = []string{"1/" + pair[0], pair[1] + "/" + pair[0]}
			if r.Chance(1, 3) {
				in.Values = append(in.Values, "1")
			}
		}
		if o.Settings {
			if r.Chance(1, 5) {
				in.BPM = fmt.Sprint(30 + r.Intn(270))
			}
			if r.Chance(1, 5) {
				if len(o.Dynamics) > 0 {
					in.Velocity = Pick(r, o.Dynamics)
				} else {
					in.Velocity = Pick(r, dynamics)
				}
			}
			if r.Chance(1, 6) {
				in.Meter = fmt.Sprintf("%d/%d", 1+r.Intn(12), Pick(r, []int{2, 4, 8, 16, 4, 3, 6, 5, 7, 12, 1, 32}))
			}
			if r.Chance(1, 5) {
				in.Key = Pick(r, SupportedKeys)
			}
		}
		if o.Meta && r.Chance(1, 4) {
			to := &TextOpts{Unicode: o.Unicode}
			for _, k := range []string{"txt", "lic", "mrk"} {
				if r.Chance(1, 2) {
					in.Meta = append(in.Meta, PairT{Key: k, Value: genMetaText(r, to)})
				}
			}
			if r.Chance(1, 8) {
				for _, k := range []string{"zeta", "alpha", "Mid", "9th", "foo"}[r.Intn(3):] {
					in.Meta = append(in.Meta, PairT{Key: k, Value: genMetaText(r, to)})
				}
			}
			if r.Chance(1, 5) {
				// keys crd does not know (they are carried along and ignored)
				k := Pick(r, []string{"2f", "51", "58", "59", "00", "01", "02", "05", "06", "07", "7f", "2F", "ff", "03", "section", "take", "cue", "copyright", "bpm", "key", "vel", "mtr", "TXT", ""})
				in.Meta = append(in.Meta, PairT{Key: k, Value: genMetaText(r, to)})
			}
		}
		d.Insts = append(d.Insts, in)
	}
	if o.TrailRest {
		d.Insts = append(d.Insts, DocInst{Values: []string{genDocValue(r, o)}})
	}
	return d
}

func yq(s string) string { return strconv.Quote(s) }

// YAML renders the document. style 0: every scalar double-quoted; style 1:
// plain scalars where YAML allows them unambiguously (numbers, fractions).
func (d Doc) YAML(style int) string {
	var sb strings.Builder
	sc := func(s string) string {
		if style == 1 && isPlainSafe(s) {
			return s
		}
		return yq(s)
	}
	for _, in := range d.Insts {
		first := true
		line := func(format string, a ...any) {
			if first {
				sb.WriteString("- ")
				first = false
			} else {
				sb.WriteString("  ")
			}
			fmt.Fprintf(&sb, format, a...)
			sb.WriteString("\n")
		}
		if c := in.Chord; c != nil {
			line("chord:")
			fmt.Fprintf(&sb, "    degree: %s\n", yq(c.Degree))
			fmt.Fprintf(&sb, "    name: %s\n", yq(c.Name))
			if c.Base != "" {
				fmt.Fprintf(&sb, "    base: %s\n", yq(c.Base))
			}
		}
		line("values:")
		for _, v := range in.Values {
			fmt.Fprintf(&sb, "    - %s\n", sc(v))
		}
		if in.BPM != "" {
			line("bpm: %s", sc(in.BPM))
		}
		if in.Velocity != "" {
			line("velocity: %s", sc(in.Velocity))
		}
		if in.Meter != "" {
			line("meter: %s", yq(in.Meter))
		}
		if in.Key != "" {
			line("key: %s", yq(in.Key))
		}
		if len(in.Meta) > 0 {
			line("meta:")
			for _, p := range in.Meta {
				fmt.Fprintf(&sb, "    %s: %s\n", yq(p.Key), yq(p.Value))
			}
		}
	}
	if len(d.Insts) == 0 {
		return "[]\n"
	}
	return sb.String()
}

func isPlainSafe(s string) bool {
	if s == "" {
		return false
	}
	for _, r := range s {
		if !(r >= '0' && r <= '9') && r != '/' && !(r >= 'a' && r <= 'z') {
			return false
		}
	}
	switch s {
	case "null", "true", "false", "yes", "no", "on", "off", "y", "n":
		return false
	}
	return true
}

// Duration is the exact sum of an instance's values; ok=false when a value
// is not of the form n or n/d with d > 0.
func (in DocInst) Duration() (*big.Rat, bool) {
	sum := new(big.Rat)
	for _, v := range in.Values {
		parts := strings.Split(v, "/")
		if len(parts) > 2 {
			return nil, false
		}
		n, ok := new(big.Int).SetString(parts[0], 10)
		if !ok || n.Sign() < 0 {
			return nil, false
		}
		den := big.NewInt(1)
		if len(parts) == 2 {
			den, ok = new(big.Int).SetString(parts[1], 10)
			if !ok || den.Sign() <= 0 {
				return nil, false
			}
		}
		sum.Add(sum, new(big.Rat).SetFrac(n, den))
	}
	return sum, true
}
