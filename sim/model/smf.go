package model

import (
	"encoding/binary"
	"fmt"
	"sort"
)

// ---------------------------------------------------------------------------
// Strict Standard MIDI File reader. Shares no code with gomidi. It accepts
// exactly what property C08 lists and reports the first deviation.

type SMFEvent struct {
	Tick  uint64 `json:"tick"`
	Delta uint32 `json:"delta"`
	// Bytes: status byte (running status expanded) followed by the data; for
	// meta events FF, type, payload (length removed); for sysex F0/F7, payload.
	Bytes []byte `json:"bytes"`
	Track int    `json:"track"`
	Index int    `json:"index"`
}

func (e SMFEvent) IsMeta() bool   { return e.Bytes[0] == 0xFF }
func (e SMFEvent) MetaType() byte { return e.Bytes[1] }
func (e SMFEvent) IsEOT() bool    { return e.IsMeta() && e.Bytes[1] == 0x2F }
func (e SMFEvent) IsNoteOn() bool { return e.Bytes[0]&0xF0 == 0x90 && e.Bytes[2] > 0 }
func (e SMFEvent) IsNoteOff() bool {
	return e.Bytes[0]&0xF0 == 0x80 || (e.Bytes[0]&0xF0 == 0x90 && e.Bytes[2] == 0)
}
func (e SMFEvent) Channel() byte { return e.Bytes[0] & 0x0F }
func (e SMFEvent) Key() byte     { return e.Bytes[1] }

type SMFTrack struct {
	Events  []SMFEvent `json:"events"`
	EOTTick uint64     `json:"eot_tick"`
}

type SMF struct {
	Format   int        `json:"format"`
	NTracks  int        `json:"ntracks"`
	Division int        `json:"division"`
	Tracks   []SMFTrack `json:"tracks"`
}

type SMFError struct {
	Class string // short class for signatures
	Msg   string
}

func (e *SMFError) Error() string { return e.Class + ": " + e.Msg }

func smfErr(class, format string, a ...any) *SMFError {
	return &SMFError{Class: class, Msg: fmt.Sprintf(format, a...)}
}

// LooksLikeSMF reports whether b starts with an SMF header chunk.
func LooksLikeSMF(b []byte) bool { return len(b) >= 4 && string(b[:4]) == "MThd" }

// ParseSMF reads b strictly. wantTracks < 0: do not check the declared
// track count against an expectation.
func ParseSMF(b []byte, wantTracks int) (*SMF, *SMFError) { return parseSMF(b, wantTracks, true) }

// DecodeSMF reads b leniently: chunk structure, deltas and event framing must
// be decodable, but data-byte ranges, meta placement, track-count/format
// agreement and note pairing are not judged (C06 only needs the events).
func DecodeSMF(b []byte) (*SMF, *SMFError) { return parseSMF(b, -1, false) }

func parseSMF(b []byte, wantTracks int, strict bool) (*SMF, *SMFError) {
	if len(b) < 14 {
		return nil, smfErr("header", "file shorter than a header chunk (%d bytes)", len(b))
	}
	if string(b[:4]) != "MThd" {
		return nil, smfErr("header", "no MThd")
	}
	if binary.BigEndian.Uint32(b[4:8]) != 6 {
		return nil, smfErr("header", "header length %d, want 6", binary.BigEndian.Uint32(b[4:8]))
	}
	s := &SMF{
		Format:   int(binary.BigEndian.Uint16(b[8:10])),
		NTracks:  int(binary.BigEndian.Uint16(b[10:12])),
		Division: int(binary.BigEndian.Uint16(b[12:14])),
	}
	if s.Division&0x8000 != 0 || s.Division == 0 {
		return nil, smfErr("header", "division %#x is not a positive ticks-per-quarter value", s.Division)
	}
	pos := 14
	for pos < len(b) {
		if len(b)-pos < 8 {
			return nil, smfErr("chunk", "%d stray bytes after the last chunk", len(b)-pos)
		}
		if string(b[pos:pos+4]) != "MTrk" {
			return nil, smfErr("chunk", "chunk type %q at offset %d", b[pos:pos+4], pos)
		}
		n := int(binary.BigEndian.Uint32(b[pos+4 : pos+8]))
		pos += 8
		if n > len(b)-pos {
			return nil, smfErr("chunk", "track %d declares %d bytes, only %d left", len(s.Tracks), n, len(b)-pos)
		}
		tr, err := parseTrack(b[pos:pos+n], len(s.Tracks), strict)
		if err != nil {
			return nil, err
		}
		s.Tracks = append(s.Tracks, *tr)
		pos += n
	}
	if !strict {
		return s, nil
	}
	if len(s.Tracks) != s.NTracks {
		return nil, smfErr("ntrks", "header declares %d tracks, file has %d MTrk chunks", s.NTracks, len(s.Tracks))
	}
	if wantTracks >= 0 && s.NTracks != wantTracks {
		return nil, smfErr("ntrks", "header declares %d tracks, --track was %d", s.NTracks, wantTracks)
	}
	if s.NTracks == 0 {
		return nil, smfErr("ntrks", "no tracks")
	}
	if s.NTracks == 1 && s.Format != 0 {
		return nil, smfErr("format", "format %d for a single track, want 0", s.Format)
	}
	if s.NTracks > 1 && s.Format != 1 {
		return nil, smfErr("format", "format %d for %d tracks, want 1", s.Format, s.NTracks)
	}
	// tempo / time signature / key signature only in the first chunk
	for ti := 1; ti < len(s.Tracks); ti++ {
		for _, e := range s.Tracks[ti].Events {
			if e.IsMeta() {
				switch e.MetaType() {
				case 0x51, 0x58, 0x59:
					return nil, smfErr("meta-track", "meta event %#x in track %d", e.MetaType(), ti)
				}
			}
		}
	}
	if err := checkNotes(s); err != nil {
		return nil, err
	}
	return s, nil
}

func parseTrack(d []byte, ti int, strict bool) (*SMFTrack, *SMFError) {
	tr := &SMFTrack{}
	pos := 0
	var tick uint64
	var running byte
	sawEOT := false
	for pos < len(d) {
		if sawEOT {
			return nil, smfErr("eot", "track %d: %d bytes after end-of-track", ti, len(d)-pos)
		}
		// delta
		var delta uint32
		n := 0
		for {
			if pos >= len(d) {
				return nil, smfErr("vlq", "track %d: delta runs past the chunk", ti)
			}
			c := d[pos]
			pos++
			n++
			delta = delta<<7 | uint32(c&0x7F)
			if c&0x80 == 0 {
				break
			}
			if n == 4 {
				return nil, smfErr("vlq", "track %d: delta longer than 4 bytes", ti)
			}
		}
		tick += uint64(delta)
		if pos >= len(d) {
			return nil, smfErr("event", "track %d: delta without event", ti)
		}
		st := d[pos]
		ev := SMFEvent{Tick: tick, Delta: delta, Track: ti, Index: len(tr.Events)}
		switch {
		case st == 0xFF:
			if len(d)-pos < 2 {
				return nil, smfErr("event", "track %d: truncated meta event", ti)
			}
			typ := d[pos+1]
			if typ >= 0x80 {
				return nil, smfErr("data-byte", "track %d: meta type %#x", ti, typ)
			}
			pos += 2
			ln, used, ok := readVLQ(d[pos:])
			if !ok {
				return nil, smfErr("vlq", "track %d: bad meta length", ti)
			}
			pos += used
			if int(ln) > len(d)-pos {
				return nil, smfErr("event", "track %d: meta payload runs past the chunk", ti)
			}
			payload := d[pos : pos+int(ln)]
			pos += int(ln)
			switch typ {
			case 0x2F:
				if ln != 0 {
					return nil, smfErr("meta-len", "track %d: end-of-track with length %d", ti, ln)
				}
				sawEOT = true
				tr.EOTTick = tick
			case 0x00:
				if ln != 2 && ln != 0 {
					return nil, smfErr("meta-len", "track %d: sequence number with length %d", ti, ln)
				}
			case 0x20, 0x21:
				if ln != 1 {
					return nil, smfErr("meta-len", "track %d: channel/port prefix (FF %02X) with length %d", ti, typ, ln)
				}
			case 0x54:
				if ln != 5 {
					return nil, smfErr("meta-len", "track %d: SMPTE offset with length %d", ti, ln)
				}
			case 0x51:
				if ln != 3 {
					return nil, smfErr("meta-len", "track %d: tempo with length %d", ti, ln)
				}
			case 0x58:
				if ln != 4 {
					return nil, smfErr("meta-len", "track %d: time signature with length %d", ti, ln)
				}
			case 0x59:
				if ln != 2 {
					return nil, smfErr("meta-len", "track %d: key signature with length %d", ti, ln)
				}
				sf := int8(payload[0])
				if sf < -7 || sf > 7 || payload[1] > 1 {
					return nil, smfErr("meta-value", "track %d: key signature sf=%d mi=%d", ti, sf, payload[1])
				}
			}
			ev.Bytes = append([]byte{0xFF, typ}, payload...)
			running = 0
		case st == 0xF0 || st == 0xF7:
			pos++
			ln, used, ok := readVLQ(d[pos:])
			if !ok {
				return nil, smfErr("vlq", "track %d: bad sysex length", ti)
			}
			pos += used
			if int(ln) > len(d)-pos {
				return nil, smfErr("event", "track %d: sysex runs past the chunk", ti)
			}
			ev.Bytes = append([]byte{st}, d[pos:pos+int(ln)]...)
			pos += int(ln)
			running = 0
		case st >= 0xF1:
			return nil, smfErr("status", "track %d: status byte %#x is not allowed in a file", ti, st)
		default:
			status := st
			if st < 0x80 {
				if running == 0 {
					return nil, smfErr("status", "track %d: data byte %#x without running status", ti, st)
				}
				status = running
			} else {
				pos++
				running = st
			}
			need := 2
			if status&0xF0 == 0xC0 || status&0xF0 == 0xD0 {
				need = 1
			}
			if len(d)-pos < need {
				return nil, smfErr("event", "track %d: truncated channel message", ti)
			}
			ev.Bytes = []byte{status}
			for i := 0; i < need; i++ {
				if d[pos] >= 0x80 && strict {
					return nil, smfErr("data-byte", "track %d: data byte %#x in message %#x at tick %d", ti, d[pos], status, tick)
				}
				ev.Bytes = append(ev.Bytes, d[pos])
				pos++
			}
		}
		tr.Events = append(tr.Events, ev)
	}
	if !sawEOT {
		return nil, smfErr("eot", "track %d: no end-of-track", ti)
	}
	return tr, nil
}

func readVLQ(d []byte) (uint32, int, bool) {
	var v uint32
	for i := 0; i < len(d) && i < 4; i++ {
		v = v<<7 | uint32(d[i]&0x7F)
		if d[i]&0x80 == 0 {
			return v, i + 1, true
		}
	}
	return 0, 0, false
}

// checkNotes: every note-on is closed by a later (or same-tick) note-off of
// the same key and channel; nothing is left sounding; no note-off without a
// sounding note. Evaluated on the merged stream, with the most lenient
// ordering inside one tick (releases of sounding notes first).
// StrictTrackPairing: notes are paired inside each track chunk (see DESIGN 13).
var StrictTrackPairing = true

func checkNotes(s *SMF) *SMFError {
	// When every track closes its own notes (per key and channel the track's
	// note-ons and note-offs balance), the order inside the track is the
	// order of the notes: judge each track strictly in that order.
	balanced := true
	for ti, t := range s.Tracks {
		cnt := map[[2]byte]int{}
		for _, e := range t.Events {
			if e.Bytes[0] >= 0xF0 {
				continue
			}
			if e.IsNoteOn() {
				cnt[[2]byte{e.Channel(), e.Key()}]++
			} else if e.IsNoteOff() {
				cnt[[2]byte{e.Channel(), e.Key()}]--
			}
		}
		keys := make([][2]byte, 0, len(cnt))
		for k := range cnt {
			keys = append(keys, k)
		}
		sort.Slice(keys, func(i, j int) bool {
			if keys[i][0] != keys[j][0] {
				return keys[i][0] < keys[j][0]
			}
			return keys[i][1] < keys[j][1]
		})
		for _, k := range keys {
			if n := cnt[k]; n != 0 && StrictTrackPairing {
				// a track chunk is what a strict reader reads: a note struck in
				// one track and released in another is hanging in the first and
				// unmatched in the second
				if n > 0 {
					return smfErr("hanging-note", "track %d: key %d channel %d is struck %d time(s) more than it is released inside this track", ti, k[1], k[0], n)
				}
				return smfErr("unmatched-off", "track %d: key %d channel %d is released %d time(s) more than it is struck inside this track", ti, k[1], k[0], -n)
			} else if n != 0 {
				balanced = false
			}
		}
	}
	if balanced {
		for ti, t := range s.Tracks {
			sounding := map[[2]byte]int{}
			for _, e := range t.Events {
				if e.Bytes[0] >= 0xF0 {
					continue
				}
				k := [2]byte{e.Channel(), e.Key()}
				if e.IsNoteOn() {
					sounding[k]++
				} else if e.IsNoteOff() {
					if sounding[k] == 0 {
						return smfErr("unmatched-off", "track %d: note-off key %d channel %d at tick %d comes before any note-on it could close", ti, e.Key(), e.Channel(), e.Tick)
					}
					sounding[k]--
				}
			}
		}
		return nil
	}
	var evs []SMFEvent
	for _, t := range s.Tracks {
		for _, e := range t.Events {
			if e.Bytes[0] < 0xF0 && (e.IsNoteOn() || e.IsNoteOff()) {
				evs = append(evs, e)
			}
		}
	}
	sort.SliceStable(evs, func(i, j int) bool { return evs[i].Tick < evs[j].Tick })
	sounding := map[[2]byte]int{}
	for i := 0; i < len(evs); {
		j := i
		for j < len(evs) && evs[j].Tick == evs[i].Tick {
			j++
		}
		group := evs[i:j]
		var lateOffs []SMFEvent
		for _, e := range group {
			if e.IsNoteOff() {
				k := [2]byte{e.Channel(), e.Key()}
				if sounding[k] > 0 {
					sounding[k]--
				} else {
					lateOffs = append(lateOffs, e)
				}
			}
		}
		for _, e := range group {
			if e.IsNoteOn() {
				sounding[[2]byte{e.Channel(), e.Key()}]++
			}
		}
		for _, e := range lateOffs {
			k := [2]byte{e.Channel(), e.Key()}
			if sounding[k] > 0 {
				sounding[k]--
			} else {
				return smfErr("unmatched-off", "note-off key %d channel %d at tick %d (track %d) closes nothing", e.Key(), e.Channel(), e.Tick, e.Track)
			}
		}
		i = j
	}
	keys := make([][2]byte, 0)
	for k, n := range sounding {
		if n > 0 {
			keys = append(keys, k)
		}
	}
	if len(keys) > 0 {
		sort.Slice(keys, func(i, j int) bool {
			if keys[i][0] != keys[j][0] {
				return keys[i][0] < keys[j][0]
			}
			return keys[i][1] < keys[j][1]
		})
		return smfErr("hanging-note", "key %d channel %d still sounding at the end", keys[0][1], keys[0][0])
	}
	return nil
}

// MergedEvents returns "tick:hexbytes" strings of all events except
// end-of-track, sorted: the multiset C06 compares across track counts.
func (s *SMF) MergedEvents() []string {
	var out []string
	for _, t := range s.Tracks {
		for _, e := range t.Events {
			if e.IsEOT() {
				continue
			}
			out = append(out, fmt.Sprintf("%012d:%x", e.Tick, e.Bytes))
		}
	}
	sort.Strings(out)
	return out
}
