// Package model holds the oracles' side of the simulator: an independently
// written recogniser for the chord-text grammar (DESIGN Appendix A), sentence
// and document generators, a strict Standard-MIDI-File reader and the
// circle-of-fifths arithmetic. Nothing here shares code or tables with crd.
package model

import (
	"strings"
	"unicode"
	"unicode/utf8"
)

// ---------------------------------------------------------------------------
// Tree of an accepted text: token values only.

type DegreeT struct {
	Head string `json:"head"`
	Acc  string `json:"acc,omitempty"`
	// HasAcc distinguishes "no accidental" from an empty token (cannot occur).
	HasAcc bool `json:"has_acc,omitempty"`
}

type ValueT struct {
	Num      string `json:"num"`
	Denom    string `json:"denom,omitempty"`
	HasDenom bool   `json:"has_denom,omitempty"`
}

type PairT struct {
	Key   string `json:"key"`
	Value string `json:"value"`
}

type ItemT struct {
	Rest      bool     `json:"rest,omitempty"`
	Degree    DegreeT  `json:"degree"`
	Symbol    string   `json:"symbol,omitempty"`
	HasSymbol bool     `json:"has_symbol,omitempty"`
	Bass      *DegreeT `json:"bass,omitempty"`
	Values    []ValueT `json:"values"`
	Meta      []PairT  `json:"meta,omitempty"`
	HasMeta   bool     `json:"has_meta,omitempty"`
}

// ---------------------------------------------------------------------------
// Tokenizer (Appendix A)

type TokKind int

const (
	TEOF TokKind = iota
	TSyllable
	TRest
	TSlash
	TLbra
	TRbra
	TLcbra
	TRcbra
	TEqual
	TComma
	TSharp
	TFlat
	TUnderscore
	TNumber
	TSymbol
	TMetadata
	TError // tokenisation failure (needSymbol unmet, or a rune no rule takes)
)

type Tok struct {
	Kind  TokKind
	Value string
	Start int // byte offset
	End   int
	// InsideAtEOF: the token was ended by the end of input rather than by a
	// delimiter (used to classify truncation points).
	InsideAtEOF bool
}

type tokenizer struct {
	src        string
	pos        int
	meta       bool
	needSymbol bool
	// where the input ended, for classification: "", "comment", ...
	EndedIn string
}

func (t *tokenizer) peek() (rune, int) {
	if t.pos >= len(t.src) {
		return -1, 0
	}
	return utf8.DecodeRuneInString(t.src[t.pos:])
}

func isMetaDelim(r rune) bool { return r == '{' || r == '}' || r == '=' || r == ',' }

func isSymbolStop(r rune) bool {
	return r == '/' || r == '[' || r == '_' || r == ';' || r == '='
}

func isSymbolRune(r rune) bool { return !isSymbolStop(r) && !unicode.IsSpace(r) }

func (t *tokenizer) run(pred func(rune) bool) (string, bool) {
	start := t.pos
	for {
		r, n := t.peek()
		if n == 0 {
			return t.src[start:t.pos], true
		}
		if !pred(r) {
			return t.src[start:t.pos], false
		}
		t.pos += n
	}
}

func (t *tokenizer) next() Tok {
	for {
		// 1. skip white space
		t.run(unicode.IsSpace)
		r, n := t.peek()
		start := t.pos
		// 2. metadata mode
		if t.meta && n > 0 && !isMetaDelim(r) {
			v, eof := t.run(func(r rune) bool { return !isMetaDelim(r) })
			if eof {
				t.EndedIn = "metadata"
			}
			return Tok{Kind: TMetadata, Value: v, Start: start, End: t.pos, InsideAtEOF: eof}
		}
		// 3. symbol required
		if t.needSymbol {
			if n == 0 || !isSymbolRune(r) {
				return Tok{Kind: TError, Start: start, End: start}
			}
			v, eof := t.run(isSymbolRune)
			t.needSymbol = false
			if eof {
				t.EndedIn = "symbol"
			}
			return Tok{Kind: TSymbol, Value: v, Start: start, End: t.pos, InsideAtEOF: eof}
		}
		if n == 0 {
			return Tok{Kind: TEOF, Start: start, End: start}
		}
		one := func(k TokKind) Tok {
			t.pos += n
			return Tok{Kind: k, Value: t.src[start:t.pos], Start: start, End: t.pos}
		}
		switch r {
		case ';':
			_, eof := t.run(func(r rune) bool { return r != '\n' })
			if eof {
				t.EndedIn = "comment"
			}
			continue
		case 'C', 'D', 'E', 'F', 'G', 'A', 'B':
			return one(TSyllable)
		case 'R':
			return one(TRest)
		case '/':
			return one(TSlash)
		case '[':
			return one(TLbra)
		case ']':
			return one(TRbra)
		case '=':
			return one(TEqual)
		case ',':
			return one(TComma)
		case '{':
			t.meta = true
			return one(TLcbra)
		case '}':
			t.meta = false
			return one(TRcbra)
		case '#', '♯':
			return one(TSharp)
		case 'b', '♭':
			return one(TFlat)
		case '_':
			t.needSymbol = true
			return one(TUnderscore)
		}
		if r >= '0' && r <= '9' {
			v, eof := t.run(func(r rune) bool { return r >= '0' && r <= '9' })
			if eof {
				t.EndedIn = "number"
			}
			return Tok{Kind: TNumber, Value: v, Start: start, End: t.pos, InsideAtEOF: eof}
		}
		if isSymbolRune(r) {
			v, eof := t.run(isSymbolRune)
			if eof {
				t.EndedIn = "symbol"
			}
			return Tok{Kind: TSymbol, Value: v, Start: start, End: t.pos, InsideAtEOF: eof}
		}
		return Tok{Kind: TError, Start: start, End: start}
	}
}

// Tokenize returns the token stream of src (ending with TEOF or TError).
func Tokenize(src string) []Tok {
	t := &tokenizer{src: src}
	var out []Tok
	for {
		k := t.next()
		out = append(out, k)
		if k.Kind == TEOF || k.Kind == TError {
			return out
		}
	}
}

// ---------------------------------------------------------------------------
// Recogniser: recursive descent over the token stream.

type Parse struct {
	Accepted bool    `json:"accepted"`
	Items    []ItemT `json:"items,omitempty"`
	// Reason for rejection (free text, for reports only).
	Reason string `json:"reason,omitempty"`
	// EndedIn says in which kind of token the input ended ("" when it ended
	// between tokens): symbol|comment|metadata|number.
	EndedIn string `json:"ended_in,omitempty"`
}

type parser struct {
	t   *tokenizer
	tok Tok
	err string
}

func (p *parser) advance() { p.tok = p.t.next() }

func (p *parser) fail(s string) bool {
	if p.err == "" {
		p.err = s
	}
	return false
}

// Recognise classifies src against the documented grammar. src must be
// valid UTF-8 (callers check).
func Recognise(src string) Parse {
	p := &parser{t: &tokenizer{src: src}}
	p.advance()
	var items []ItemT
	for {
		if p.tok.Kind == TEOF {
			break
		}
		it, ok := p.item()
		if !ok {
			return Parse{Accepted: false, Reason: p.err, EndedIn: p.t.EndedIn}
		}
		items = append(items, it)
	}
	if len(items) == 0 {
		return Parse{Accepted: false, Reason: "empty list", EndedIn: p.t.EndedIn}
	}
	return Parse{Accepted: true, Items: items, EndedIn: p.t.EndedIn}
}

func (p *parser) item() (ItemT, bool) {
	var it ItemT
	switch p.tok.Kind {
	case TRest:
		it.Rest = true
		p.advance()
	case TSyllable, TNumber:
		d, ok := p.degree()
		if !ok {
			return it, false
		}
		it.Degree = d
		// symbol?
		switch p.tok.Kind {
		case TSymbol:
			it.Symbol, it.HasSymbol = p.tok.Value, true
			p.advance()
		case TUnderscore:
			p.advance()
			if p.tok.Kind != TSymbol {
				return it, p.fail("symbol expected after _")
			}
			it.Symbol, it.HasSymbol = p.tok.Value, true
			p.advance()
		}
		// bass?
		if p.tok.Kind == TSlash {
			p.advance()
			if p.tok.Kind != TSyllable && p.tok.Kind != TNumber {
				return it, p.fail("degree expected after /")
			}
			b, ok := p.degree()
			if !ok {
				return it, false
			}
			it.Bass = &b
		}
	default:
		return it, p.fail("chord or rest expected")
	}
	if p.tok.Kind != TLbra {
		return it, p.fail("[ expected")
	}
	p.advance()
	for {
		if p.tok.Kind != TNumber {
			return it, p.fail("number expected")
		}
		v := ValueT{Num: p.tok.Value}
		p.advance()
		if p.tok.Kind == TSlash {
			p.advance()
			if p.tok.Kind != TNumber {
				return it, p.fail("denominator expected")
			}
			v.Denom, v.HasDenom = p.tok.Value, true
			p.advance()
		}
		it.Values = append(it.Values, v)
		if p.tok.Kind == TComma {
			p.advance()
			continue
		}
		break
	}
	if p.tok.Kind != TRbra {
		return it, p.fail("] expected")
	}
	p.advance()
	if p.tok.Kind == TLcbra {
		it.HasMeta = true
		p.advance()
		for {
			if p.tok.Kind != TMetadata {
				return it, p.fail("metadata key expected")
			}
			pr := PairT{Key: p.tok.Value}
			p.advance()
			if p.tok.Kind != TEqual {
				return it, p.fail("= expected")
			}
			p.advance()
			if p.tok.Kind != TMetadata {
				return it, p.fail("metadata value expected")
			}
			pr.Value = p.tok.Value
			p.advance()
			it.Meta = append(it.Meta, pr)
			if p.tok.Kind == TComma {
				p.advance()
				continue
			}
			break
		}
		if p.tok.Kind != TRcbra {
			return it, p.fail("} expected")
		}
		p.advance()
	}
	return it, true
}

func (p *parser) degree() (DegreeT, bool) {
	d := DegreeT{Head: p.tok.Value}
	p.advance()
	if p.tok.Kind == TSharp || p.tok.Kind == TFlat {
		d.Acc, d.HasAcc = p.tok.Value, true
		p.advance()
	}
	return d, true
}

// ---------------------------------------------------------------------------
// helpers used by campaigns

// TokenSpans returns the byte spans of the tokens of src (without EOF/Error).
func TokenSpans(src string) []Tok {
	ts := Tokenize(src)
	if n := len(ts); n > 0 && (ts[n-1].Kind == TEOF || ts[n-1].Kind == TError) {
		ts = ts[:n-1]
	}
	return ts
}

// CutClass says where a truncation at byte offset k of src lands.
func CutClass(src string, k int) string {
	pre := src[:k]
	if !utf8.ValidString(pre) {
		return "inside-rune"
	}
	p := Recognise(pre)
	if p.EndedIn != "" {
		return "inside-" + p.EndedIn
	}
	return "between-tokens"
}

func IsASCII(s string) bool { return strings.IndexFunc(s, func(r rune) bool { return r >= 0x80 }) < 0 }
