package model

import "sort"

// ---------------------------------------------------------------------------
// Circle-of-fifths arithmetic (C14). State = (pitch class of the tonic, mode).
// The 28 supported keys are those of the property statement.

type KeyState struct {
	PC    int
	Minor bool
}

var letterPC = map[byte]int{'C': 0, 'D': 2, 'E': 4, 'F': 5, 'G': 7, 'A': 9, 'B': 11}

// KeyStateOf parses a key spelling [A-G][#b]?m?.
func KeyStateOf(k string) (KeyState, bool) {
	if len(k) == 0 {
		return KeyState{}, false
	}
	pc, ok := letterPC[k[0]]
	if !ok {
		return KeyState{}, false
	}
	rest := k[1:]
	if len(rest) > 0 && rest[0] == '#' {
		pc++
		rest = rest[1:]
	} else if len(rest) > 0 && rest[0] == 'b' {
		pc--
		rest = rest[1:]
	}
	minor := false
	if rest == "m" {
		minor = true
	} else if rest != "" {
		return KeyState{}, false
	}
	return KeyState{PC: ((pc % 12) + 12) % 12, Minor: minor}, true
}

// Step applies one conversion: d(ominant) s(ubdominant) r(elative) p(arallel).
func (s KeyState) Step(c byte) (KeyState, bool) {
	switch c {
	case 'd':
		return KeyState{(s.PC + 7) % 12, s.Minor}, true
	case 's':
		return KeyState{(s.PC + 5) % 12, s.Minor}, true
	case 'p':
		return KeyState{s.PC, !s.Minor}, true
	case 'r':
		if s.Minor {
			return KeyState{(s.PC + 3) % 12, false}, true
		}
		return KeyState{(s.PC + 9) % 12, true}, true
	}
	return s, false
}

// ExtraKeys are keys the tree under test lists as supported in addition to
// the 28 of the property statement (read from `crd info key list`).
var ExtraKeys []string

// AllKeys is the set of supported keys: the 28 of the statement plus
// whatever else the tree lists.
func AllKeys() []string {
	out := append([]string{}, SupportedKeys...)
	for _, k := range ExtraKeys {
		dup := false
		for _, x := range out {
			if x == k {
				dup = true
			}
		}
		if !dup {
			out = append(out, k)
		}
	}
	return out
}

// Spellings lists every supported spelling of the state, sorted.
func (s KeyState) Spellings() []string {
	var out []string
	for _, k := range AllKeys() {
		if ks, ok := KeyStateOf(k); ok && ks == s {
			out = append(out, k)
		}
	}
	sort.Strings(out)
	return out
}

// ChainResult is the expected set of keys printed for `--key k -c chain`.
func ChainResult(k, chain string) ([]string, bool) {
	s, ok := KeyStateOf(k)
	if !ok {
		return nil, false
	}
	for i := 0; i < len(chain); i++ {
		s, ok = s.Step(chain[i])
		if !ok {
			return nil, false
		}
	}
	return s.Spellings(), true
}
