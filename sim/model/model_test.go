package model

import (
	"reflect"
	"testing"
)

func TestRecogniseBasics(t *testing.T) {
	acc := []string{"C[1]", "R[1]", "C#m7/G[1,1/2]{txt=a b, bpm=120}", "1_7/5[02]", " C [ 1 ] ; x\n", "C[1];", "Cb_b5[1]", "C m[1]", "5♭maj7[1/4]", "C[1]{k=v ; not comment}", "C_ m[1]"}
	rej := []string{"", "C", "C[", "C[1", "C[1]{", "C[1]{a", "C[1]{a=", "C[1]{a=b", "C[]", "Cm", "C_", "C_;x\n m[1]", "C[1] x", "[1]", "C[1]]", "C[1/]", "C//D[1]", "CD[1]", "Rm[1]", "C[1]{a=b}{c=d}", "C[1,]", "C[1]{=}", ";only"}
	for _, s := range acc {
		if p := Recognise(s); !p.Accepted {
			t.Errorf("%q rejected: %s", s, p.Reason)
		}
	}
	for _, s := range rej {
		if p := Recognise(s); p.Accepted {
			t.Errorf("%q accepted: %+v", s, p.Items)
		}
	}
}

func TestRenderRoundTrip(t *testing.T) {
	bad := 0
	for seed := 0; seed < 3000; seed++ {
		r := NewRand(uint64(seed), "t")
		o := &TextOpts{Mode: []string{"syllable", "degree"}[seed%2], MaxItems: 5, Trivia: seed%3 != 0, Unicode: seed%5 == 0, Exotic: seed%4 == 0, Meta: true}
		s := GenSentence(r, o)
		p := Recognise(s.Text)
		if !p.Accepted {
			t.Errorf("seed %d: %q rejected: %s", seed, s.Text, p.Reason)
			bad++
		} else if !reflect.DeepEqual(p.Items, s.Items) {
			t.Errorf("seed %d: %q\n got %+v\nwant %+v", seed, s.Text, p.Items, s.Items)
			bad++
		}
		if bad > 5 {
			t.FailNow()
		}
	}
}

func TestKeys(t *testing.T) {
	got, _ := ChainResult("E", "d")
	if !reflect.DeepEqual(got, []string{"B", "Cb"}) {
		t.Errorf("%v", got)
	}
	got, _ = ChainResult("C", "ps")
	if !reflect.DeepEqual(got, []string{"Fm"}) {
		t.Errorf("%v", got)
	}
	got, _ = ChainResult("C", "dddddddddddd")
	if !reflect.DeepEqual(got, []string{"C"}) {
		t.Errorf("%v", got)
	}
}
